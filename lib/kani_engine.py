"""Engine K runner: regenerates the Kani harnesses, runs the selected ones with CBMC in
parallel under time and memory caps, classifies results, replays failures natively."""
import json, os, re, subprocess, sys, time, shutil

KANI_MEM_KB = 14_000_000     # per process
HARNESS_TIMEOUT_Q = 900
HARNESS_TIMEOUT_T = 1500


def _sh(cmd, cwd, timeout, env=None):
    e = dict(os.environ)
    e["CARGO_NET_OFFLINE"] = "true"
    e.setdefault("CARGO_TERM_COLOR", "never")
    if env:
        e.update(env)
    t0 = time.time()
    try:
        p = subprocess.run(cmd, cwd=cwd, env=e, stdout=subprocess.PIPE, stderr=subprocess.STDOUT, timeout=timeout, text=True, errors="replace", shell=isinstance(cmd, str))
        return p.returncode, p.stdout, time.time() - t0
    except subprocess.TimeoutExpired as ex:
        return 124, (ex.stdout or "") if isinstance(ex.stdout, str) else "", time.time() - t0


def _gen(ROOT):
    sys.path.insert(0, os.path.join(ROOT, "gen"))
    import importlib
    import gen_kani
    importlib.reload(gen_kani)
    return gen_kani.gen()


def _parse(out):
    """per-harness result blocks of `--output-format terse -j N`"""
    names = {}
    for m in re.finditer(r"Thread (\d+): Checking harness (\S+)\.\.\.", out):
        names.setdefault(m.group(1), []).append(m.group(2))
    idx = {k: 0 for k in names}
    blocks = re.split(r"\nThread (\d+): \n", out)
    res = {}
    for i in range(1, len(blocks), 2):
        th, body = blocks[i], blocks[i + 1]
        if th not in names or idx[th] >= len(names[th]):
            continue
        n = names[th][idx[th]]
        idx[th] += 1
        # the body runs until the next "Thread" marker of any thread
        body = re.split(r"\nThread \d+: Checking harness", body)[0]
        st = re.search(r"VERIFICATION:- (\w+)", body)
        tm = re.search(r"Verification Time: ([\d.]+)s", body)
        cov = re.search(r"\*\* (\d+) of (\d+) cover properties satisfied", body)
        failed = re.findall(r"Failed Checks: (.*)", body)
        res[n.split("::")[-1]] = dict(
            status=st.group(1) if st else "UNKNOWN",
            time_s=float(tm.group(1)) if tm else None,
            covers=(int(cov.group(1)), int(cov.group(2))) if cov else None,
            failed_checks=failed[:6],
            oom="out of memory" in body,
            timeout="timed out" in body.lower() or "timeout" in body.lower(),
            unwind="unwinding assertion" in body,
        )
    return res


def _playback_vals(kdir, tgt, name):
    """all concrete-playback value lists Kani prints for failed (non-cover) checks of the harness"""
    rc, out, dt = _sh(f"ulimit -v {KANI_MEM_KB}; cargo kani --target-dir {tgt} -Z concrete-playback -Z stubbing --concrete-playback=print --output-format terse --exact --harness gen::{name}", kdir, 900)
    cands = []
    for m in re.finditer(r"/// Check for `([a-z_]+)`: (.*?)\n.*?let concrete_vals: Vec<Vec<u8>> = vec!\[(.*?)\n\s*\];", out, re.S):
        kind, desc, body = m.group(1), m.group(2), m.group(3)
        if kind == "cover":
            continue
        vals = []
        for line in body.splitlines():
            mm = re.match(r"vec!\[(.*)\],?$", line.strip())
            if mm:
                vals.append([int(x) for x in mm.group(1).split(",") if x.strip()])
        cands.append((desc.strip(), vals))
    return cands or None


def _native_replay(kdir, tgt, name, vals, outdir, profile):
    os.makedirs(outdir, exist_ok=True)
    vf = os.path.join(outdir, f"{name}.vals")
    open(vf, "w").write("\n".join(",".join(str(b) for b in v) for v in vals) + "\n")
    cmd = ["cargo", "build", "--offline", "--bin", "replay", "--target-dir", tgt + "-native"]
    if profile == "release":
        cmd.append("--release")
    rc, out, _ = _sh(cmd, kdir, 900)
    if rc != 0:
        return None, "native replay binary does not build: " + out[-400:], vf
    binp = os.path.join(tgt + "-native", "release" if profile == "release" else "debug", "replay")
    rc, out, _ = _sh([binp, name, vf], kdir, 120)
    line = next((l for l in out.splitlines() if l.startswith("REPRODUCED") or l.startswith("NOT-REPRODUCED")), out.strip()[-200:])
    return rc == 1 and line.startswith("REPRODUCED"), line[:300], vf


def run(prop, tier, seed, ROOT, REPO, CACHE, OUT):
    hs, unknown = _gen(ROOT)
    sel = [h for h in hs if prop in h["props"] and (tier == "thorough" or h["quick"])]
    if not sel:
        return None
    kdir = os.path.join(ROOT, "kani")
    tgt = os.path.join(CACHE, "kani-target")
    os.makedirs(tgt, exist_ok=True)
    lock = os.path.join(REPO, "Cargo.lock")
    if os.path.exists(lock):
        shutil.copy(lock, os.path.join(kdir, "Cargo.lock"))
    # Kani does not always notice a changed path dependency: bump the generated file's mtime
    os.utime(os.path.join(kdir, "src", "gen.rs"), None)
    to = HARNESS_TIMEOUT_T if tier == "thorough" else HARNESS_TIMEOUT_Q
    filt = " ".join(f"--harness gen::{h['name']}" for h in sel)
    jobs = max(2, min(len(sel), os.cpu_count() or 8))
    cmd = f"ulimit -v {KANI_MEM_KB}; cargo kani --target-dir {tgt} -j {jobs} --output-format terse -Z unstable-options -Z stubbing --harness-timeout {to}s --exact {filt}"
    t0 = time.time()
    rc, out, dt = _sh(cmd, kdir, to * 3 + 1200)
    inconclusive, violations, samples = [], [], []
    if "error: could not compile" in out or "Failed to execute cargo" in out or "error[E" in out:
        # the harness crate no longer builds against /repo: report, never pass
        errs = "\n".join(l for l in out.splitlines() if l.startswith("error"))[:600]
        return dict(summary=dict(engine="kani", harnesses_run=0, harnesses_successful_nonvacuous=0, build_error=errs), inconclusive=[f"engine K: harness crate does not build against /repo: {errs}"], violations=[], samples=[])
    res = _parse(out)
    hlist = []
    ok = 0
    for h in sel:
        r = res.get(h["name"])
        if r is None:
            inconclusive.append(f"kani {h['name']}: no result (run aborted?)")
            hlist.append(dict(name=h["name"], about=h["about"], status="NO-RESULT"))
            continue
        entry = dict(name=h["name"], about=h["about"], status=r["status"], cbmc_time_s=r["time_s"], covers_satisfied=r["covers"], unwind_bound="see #[kani::unwind] in kani/src/gen.rs; unwinding assertions on")
        hlist.append(entry)
        if r["status"] == "SUCCESSFUL":
            if r["covers"] and r["covers"][0] < r["covers"][1]:
                inconclusive.append(f"kani {h['name']}: a reachability witness (kani::cover!) is unsatisfied: vacuous harness")
            else:
                ok += 1
            continue
        if r["oom"] or r["timeout"] or r["status"] == "UNKNOWN":
            inconclusive.append(f"kani {h['name']}: {'out of memory' if r['oom'] else 'time-out'} (bound not decided)")
            continue
        if r["unwind"] and not [f for f in r["failed_checks"] if "unwinding" not in f]:
            inconclusive.append(f"kani {h['name']}: unwinding assertion failed (bound too small)")
            continue
        # a failed check: obtain the concrete values and replay natively (dev and release)
        cands = _playback_vals(kdir, tgt, h["name"])
        if cands is None:
            inconclusive.append(f"kani {h['name']}: FAILED ({'; '.join(r['failed_checks'][:2])}) but no concrete values could be extracted")
            continue
        rep_dev = rep_rel = False
        msg_dev = msg_rel = ""
        vals, vf = None, None
        for desc, v in cands:
            rep_dev, msg_dev, vf = _native_replay(kdir, tgt, h["name"], v, os.path.join(OUT, "replay"), "dev")
            rep_rel, msg_rel, _ = _native_replay(kdir, tgt, h["name"], v, os.path.join(OUT, "replay"), "release")
            vals = v
            if rep_dev or rep_rel:
                break
        entry["replayed"] = dict(dev=rep_dev, release=rep_rel)
        if rep_dev or rep_rel:
            key = re.sub(r"[^A-Za-z0-9_:/ .-]", "", (msg_dev or msg_rel).split("REPRODUCED:")[-1].strip())[:100]
            violations.append(dict(engine="kani", harness=h["name"], key=f"{h['name']}/{key}", detail=f"CBMC: {'; '.join(r['failed_checks'][:3])} ; native replay: {msg_dev}", vals_file=vf, vals=vals, property=prop, tier=tier))
        else:
            inconclusive.append(f"kani {h['name']}: CBMC reported {'; '.join(r['failed_checks'][:2])} but the concrete values do not reproduce natively (spurious / memory-model verdict): {msg_dev}")
    for h in sel[:4]:
        samples.append(f"kani harness {h['name']}: {h['about']}")
    summary = dict(
        engine="kani 0.68 / CBMC 6.11 (cadical): bounded model checking of the real operator/observer/subscription code driven directly; one SAT query decides all scripts within the unwind bound",
        harnesses_run=len(sel),
        harnesses_successful_nonvacuous=ok,
        wall_s=round(time.time() - t0, 1),
        cbmc_time_total_s=round(sum(x.get("cbmc_time_s") or 0 for x in hlist), 1),
        replayed=sum(1 for x in hlist if x.get("replayed")),
        harnesses=hlist,
        operators_without_catalogue_entry=unknown,
        instantiation="items u8, errors u8; scripts of <= 4 events; parameters 0..=5",
    )
    return dict(summary=summary, inconclusive=inconclusive, violations=violations, samples=samples)


def replay_file(f, ROOT, REPO, CACHE):
    kdir = os.path.join(ROOT, "kani")
    tgt = os.path.join(CACHE, "kani-target")
    rep, msg, vf = _native_replay(kdir, tgt, f["harness"], f["vals"], os.path.join(ROOT, "out", "replay"), "dev")
    print(msg)
    return 1 if rep else 0
