#!/bin/sh
# warm the Kani build of the harness crate (one cheap harness)
cd "$(dirname "$0")/.."
export CARGO_NET_OFFLINE=true
python3 gen/gen_kani.py >/dev/null
mkdir -p .cache; [ -e .cache/repo ] || ln -sfn "${VERIF_REPO:-/repo}" .cache/repo
cp .cache/repo/Cargo.lock kani/Cargo.lock 2>/dev/null
mkdir -p .cache/kani-target
(cd kani && timeout 900 cargo kani --target-dir ../.cache/kani-target --output-format terse --exact --harness gen::k_c17_guard 2>&1 | tail -3)
(cd kani && cargo build --offline --bin replay --target-dir ../.cache/kani-target-native 2>&1 | tail -1)
