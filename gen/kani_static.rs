
// ====================================================================== static harnesses (gen/kani_static.rs)

/// merged timeline of two directly driven inputs: (side, kind, value)
#[derive(Clone, Copy)]
pub struct TEvt {
  pub s: u8,
  pub k: u8,
  pub v: u8,
}
pub fn draw_tevt() -> TEvt {
  let s = nd::u8();
  nd::assume(s <= 1);
  let k = nd::u8();
  nd::assume(k <= 2);
  TEvt { s, k, v: nd::u8() }
}

#[derive(Clone, Copy, PartialEq)]
pub enum M2 {
  Merge,
  Zip,
  CombineLatest,
  WithLatestFrom,
  TakeUntil,
  SkipUntil,
  Sample,
}

/// timeline semantics (DESIGN Appendix A); `side_done` mirrors the harness (a side's slot is taken at its terminal)
pub struct Model2 {
  pub op: M2,
  /// the other documented reading (skip_until: the notifier's completion does not open the gate;
  /// sample: the sampler's completion is not a tick)
  pub alt: bool,
  pub want: Want,
  done_side: [bool; 2],
  completed: [bool; 2],
  qa: [u8; K],
  qa_h: usize,
  qa_t: usize,
  qb: [u8; K],
  qb_h: usize,
  qb_t: usize,
  la: Option<u8>,
  lb: Option<u8>,
  skipping: bool,
  pending: Option<u8>,
}
impl Model2 {
  pub fn new(op: M2) -> Self {
    Model2 { op, alt: false, want: Want::new(), done_side: [false; 2], completed: [false; 2], qa: [0; K], qa_h: 0, qa_t: 0, qb: [0; K], qb_h: 0, qb_t: 0, la: None, lb: None, skipping: true, pending: None }
  }
  pub fn step(&mut self, e: TEvt) {
    let s = e.s as usize;
    if self.done_side[s] {
      return;
    }
    if e.k != K_NEXT {
      self.done_side[s] = true;
    }
    match self.op {
      M2::Merge => {
        if e.k == K_NEXT {
          self.want.next(e.v)
        } else if e.k == K_ERROR {
          self.want.push(K_ERROR, e.v, 0)
        } else {
          self.completed[s] = true;
          if self.completed[0] && self.completed[1] {
            self.want.push(K_COMPLETE, 0, 0)
          }
        }
      }
      M2::Zip => {
        if e.k == K_NEXT {
          if s == 0 {
            if self.qb_h < self.qb_t {
              let b = self.qb[self.qb_h];
              self.qb_h += 1;
              self.want.push(K_NEXT, e.v, b);
            } else {
              self.qa[self.qa_t] = e.v;
              self.qa_t += 1;
            }
          } else if self.qa_h < self.qa_t {
            let a = self.qa[self.qa_h];
            self.qa_h += 1;
            self.want.push(K_NEXT, a, e.v);
          } else {
            self.qb[self.qb_t] = e.v;
            self.qb_t += 1;
          }
        } else if e.k == K_ERROR {
          self.want.push(K_ERROR, e.v, 0)
        } else {
          self.completed[s] = true;
          if self.completed[0] && self.completed[1] {
            self.want.push(K_COMPLETE, 0, 0)
          }
        }
      }
      M2::CombineLatest => {
        if e.k == K_NEXT {
          if s == 0 {
            self.la = Some(e.v)
          } else {
            self.lb = Some(e.v)
          }
          if let (Some(a), Some(b)) = (self.la, self.lb) {
            self.want.push(K_NEXT, a, b);
          }
        } else if e.k == K_ERROR {
          self.want.push(K_ERROR, e.v, 0)
        } else {
          self.completed[s] = true;
          if self.completed[0] && self.completed[1] {
            self.want.push(K_COMPLETE, 0, 0)
          }
        }
      }
      M2::WithLatestFrom => {
        if e.k == K_NEXT {
          if s == 0 {
            if let Some(b) = self.lb {
              self.want.push(K_NEXT, e.v, b);
            }
          } else {
            self.lb = Some(e.v)
          }
        } else if e.k == K_ERROR {
          self.want.push(K_ERROR, e.v, 0)
        } else if s == 0 {
          self.want.push(K_COMPLETE, 0, 0)
        }
      }
      M2::TakeUntil => {
        if s == 0 {
          if e.k == K_NEXT {
            self.want.next(e.v)
          } else if e.k == K_ERROR {
            self.want.push(K_ERROR, e.v, 0)
          } else {
            self.want.push(K_COMPLETE, 0, 0)
          }
        } else if e.k == K_NEXT {
          self.want.push(K_COMPLETE, 0, 0)
        }
      }
      M2::SkipUntil => {
        if s == 0 {
          if e.k == K_NEXT {
            if !self.skipping {
              self.want.next(e.v)
            }
          } else if e.k == K_ERROR {
            self.want.push(K_ERROR, e.v, 0)
          } else {
            self.want.push(K_COMPLETE, 0, 0)
          }
        } else if e.k == K_NEXT || (e.k == K_COMPLETE && !self.alt) {
          self.skipping = false
        }
      }
      M2::Sample => {
        if s == 0 {
          if e.k == K_NEXT {
            self.pending = Some(e.v)
          } else if e.k == K_ERROR {
            self.want.push(K_ERROR, e.v, 0)
          } else {
            self.want.push(K_COMPLETE, 0, 0)
          }
        } else if e.k == K_ERROR {
          self.want.push(K_ERROR, e.v, 0)
        } else if e.k == K_NEXT || !self.alt {
          if let Some(v) = self.pending.take() {
            self.want.next(v)
          }
        }
      }
    }
  }
}

macro_rules! c04_harness {
  ($fname:ident, $kname:ident, $m:expr, $probe:ident, $unwind:expr, |$a:ident, $b:ident| $build:expr) => {
    pub fn $fname() {
      reset();
      let mut sa = None;
      let mut sb = None;
      {
        let $a = Grab(&mut sa);
        let $b = Grab(&mut sb);
        $build.actual_subscribe($probe);
      }
      let mut model = Model2::new($m);
      let mut model_alt = Model2::new($m);
      model_alt.alt = true;
      let mut i = 0;
      while i < K {
        let e = draw_tevt();
        model.step(e);
        model_alt.step(e);
        if e.s == 0 {
          if e.k == K_NEXT {
            if let Some(o) = sa.as_mut() {
              Observer::<u8, u8>::next(o, e.v)
            }
          } else if e.k == K_COMPLETE {
            if let Some(o) = sa.take() {
              Observer::<u8, u8>::complete(o)
            }
          } else if let Some(o) = sa.take() {
            Observer::<u8, u8>::error(o, e.v)
          }
        } else if e.k == K_NEXT {
          if let Some(o) = sb.as_mut() {
            Observer::<u8, u8>::next(o, e.v)
          }
        } else if e.k == K_COMPLETE {
          if let Some(o) = sb.take() {
            Observer::<u8, u8>::complete(o)
          }
        } else if let Some(o) = sb.take() {
          Observer::<u8, u8>::error(o, e.v)
        }
        i += 1;
      }
      crate::cover!(unsafe { LEN } >= 2, "probe saw at least two events");
      assert!(model.want.matches_log() || model_alt.want.matches_log(), "two-input combinator: delivered sequence differs from the timeline semantics");
      assert!(unsafe { !GRAMMAR_BROKEN }, "two-input combinator: event after terminal");
    }
    #[cfg(kani)]
    #[kani::proof]
    #[kani::unwind($unwind)]
    fn $kname() {
      $fname()
    }
  };
}

c04_harness!(c04_merge, k_c04_merge, M2::Merge, Probe, 14, |a, b| a.merge(b));
c04_harness!(c04_merge_threads, k_c04_merge_threads, M2::Merge, Probe, 14, |a, b| a.merge_threads(b));
// zip (two VecDeques in an Rc): CBMC runs out of memory at this bound -> engine S
c04_harness!(c04_combine_latest, k_c04_combine_latest, M2::CombineLatest, ProbeP, 14, |a, b| a.combine_latest(b, |x: u8, y: u8| (x, y)));
c04_harness!(c04_combine_latest_threads, k_c04_combine_latest_threads, M2::CombineLatest, ProbeP, 14, |a, b| a.combine_latest_threads(b, |x: u8, y: u8| (x, y)));
c04_harness!(c04_with_latest_from, k_c04_with_latest_from, M2::WithLatestFrom, ProbeP, 14, |a, b| a.with_latest_from(b));
c04_harness!(c04_with_latest_from_threads, k_c04_with_latest_from_threads, M2::WithLatestFrom, ProbeP, 14, |a, b| a.with_latest_from_threads(b));
c04_harness!(c04_take_until, k_c04_take_until, M2::TakeUntil, Probe, 14, |a, b| a.take_until::<_, u8, u8>(b));
c04_harness!(c04_take_until_threads, k_c04_take_until_threads, M2::TakeUntil, Probe, 14, |a, b| a.take_until_threads::<_, u8, u8>(b));
c04_harness!(c04_skip_until, k_c04_skip_until, M2::SkipUntil, Probe, 14, |a, b| a.skip_until::<u8, u8, _>(b));
c04_harness!(c04_skip_until_threads, k_c04_skip_until_threads, M2::SkipUntil, Probe, 14, |a, b| a.skip_until_threads::<u8, u8, _>(b));
c04_harness!(c04_sample, k_c04_sample, M2::Sample, Probe, 14, |a, b| a.sample::<_, u8, u8>(b));
c04_harness!(c04_sample_threads, k_c04_sample_threads, M2::Sample, Probe, 14, |a, b| a.sample_threads::<_, u8, u8>(b));

// ---------------------------------------------------------------------- C18: local vs thread-safe in one run

macro_rules! c18_harness {
  ($fname:ident, $kname:ident, $probe:ident, $unwind:expr, |$a:ident, $b:ident| $local:expr, $threads:expr) => {
    pub fn $fname() {
      reset();
      let mut sa = None;
      let mut sb = None;
      let mut ta = None;
      let mut tb = None;
      {
        let $a = Grab(&mut sa);
        let $b = Grab(&mut sb);
        $local.actual_subscribe($probe);
      }
      let mut tl = [TEvt { s: 0, k: 0, v: 0 }; K];
      let mut i = 0;
      while i < K {
        tl[i] = draw_tevt();
        i += 1;
      }
      macro_rules! drive {
        ($x:ident, $y:ident) => {
          let mut i = 0;
          while i < K {
            let e = tl[i];
            if e.s == 0 {
              if e.k == K_NEXT {
                if let Some(o) = $x.as_mut() {
                  Observer::<u8, u8>::next(o, e.v)
                }
              } else if e.k == K_COMPLETE {
                if let Some(o) = $x.take() {
                  Observer::<u8, u8>::complete(o)
                }
              } else if let Some(o) = $x.take() {
                Observer::<u8, u8>::error(o, e.v)
              }
            } else if e.k == K_NEXT {
              if let Some(o) = $y.as_mut() {
                Observer::<u8, u8>::next(o, e.v)
              }
            } else if e.k == K_COMPLETE {
              if let Some(o) = $y.take() {
                Observer::<u8, u8>::complete(o)
              }
            } else if let Some(o) = $y.take() {
              Observer::<u8, u8>::error(o, e.v)
            }
            i += 1;
          }
        };
      }
      drive!(sa, sb);
      let l1 = unsafe { LEN };
      let (k1, v1, w1) = unsafe { (LOG_K, LOG_V, LOG_W) };
      unsafe {
        LEN = 0;
        TERMINATED = false;
      }
      {
        let $a = Grab(&mut ta);
        let $b = Grab(&mut tb);
        $threads.actual_subscribe($probe);
      }
      drive!(ta, tb);
      assert!(l1 == unsafe { LEN }, "local and thread-safe form delivered a different number of events");
      let mut i = 0;
      while i < CAP {
        if i < l1 {
          unsafe { assert!(k1[i] == LOG_K[i] && v1[i] == LOG_V[i] && w1[i] == LOG_W[i], "local and thread-safe form differ") };
        }
        i += 1;
      }
      crate::cover!(l1 >= 2, "at least two events delivered");
    }
    #[cfg(kani)]
    #[kani::proof]
    #[kani::unwind($unwind)]
    fn $kname() {
      $fname()
    }
  };
}

c18_harness!(c18_merge, k_c18_merge, Probe, 14, |a, b| a.merge(b), a.merge_threads(b));
c18_harness!(c18_take_until, k_c18_take_until, Probe, 14, |a, b| a.take_until::<_, u8, u8>(b), a.take_until_threads::<_, u8, u8>(b));
c18_harness!(c18_skip_until, k_c18_skip_until, Probe, 14, |a, b| a.skip_until::<u8, u8, _>(b), a.skip_until_threads::<u8, u8, _>(b));
c18_harness!(c18_sample, k_c18_sample, Probe, 14, |a, b| a.sample::<_, u8, u8>(b), a.sample_threads::<_, u8, u8>(b));
c18_harness!(c18_with_latest_from, k_c18_with_latest_from, ProbeP, 14, |a, b| a.with_latest_from(b), a.with_latest_from_threads(b));
c18_harness!(c18_combine_latest, k_c18_combine_latest, ProbeP, 14, |a, b| a.combine_latest(b, |x: u8, y: u8| (x, y)), a.combine_latest_threads(b, |x: u8, y: u8| (x, y)));

// ---------------------------------------------------------------------- C15: finalize, direct drive + unsubscribe through the returned subscription

pub struct UnsubFlag;
impl Subscription for UnsubFlag {
  fn unsubscribe(self) {
    unsafe { CTR[3] += 1 }
  }
  fn is_closed(&self) -> bool {
    unsafe { CTR[3] > 0 }
  }
}
/// like `Grab`, but hands back a subscription
pub struct GrabU<'a, O>(pub &'a mut Option<O>);
impl<'a, Item, Err, O> Observable<Item, Err, O> for GrabU<'a, O>
where
  O: Observer<Item, Err>,
{
  type Unsub = UnsubFlag;
  fn actual_subscribe(self, observer: O) -> UnsubFlag {
    *self.0 = Some(observer);
    UnsubFlag
  }
}
impl<'a, O> ObservableExt<u8, u8> for GrabU<'a, O> {}

macro_rules! c15_harness {
  ($fname:ident, $kname:ident, $fin:ident) => {
    pub fn $fname() {
      reset();
      let mut slot = None;
      let u = GrabU(&mut slot).$fin(|| unsafe { CTR[1] += 1 }).actual_subscribe(Probe);
      let mut u = Some(u);
      let mut triggered = false;
      let mut i = 0;
      while i < K {
        let c = nd::u8();
        nd::assume(c <= 3);
        if c == 0 {
          if let Some(o) = slot.as_mut() {
            Observer::<u8, u8>::next(o, nd::u8())
          }
        } else if c == 1 {
          if let Some(o) = slot.take() {
            Observer::<u8, u8>::complete(o);
            triggered = true;
            assert!(unsafe { TERMINATED }, "finalize: downstream did not see the terminal before the call returned");
          }
        } else if c == 2 {
          if let Some(o) = slot.take() {
            Observer::<u8, u8>::error(o, nd::u8());
            triggered = true;
          }
        } else if let Some(s) = u.take() {
          s.unsubscribe();
          triggered = true;
          assert!(unsafe { CTR[3] } == 1, "finalize: upstream subscription not unsubscribed");
        }
        let n = unsafe { CTR[1] };
        assert!(n == triggered as u32, "finalize: callback must have run exactly once after the first of complete/error/unsubscribe, and not before");
        i += 1;
      }
      crate::cover!(triggered, "a trigger happened");
    }
    #[cfg(kani)]
    #[kani::proof]
    #[kani::unwind(10)]
    fn $kname() {
      $fname()
    }
  };
}
c15_harness!(c15_finalize, k_c15_finalize, finalize);
c15_harness!(c15_finalize_threads, k_c15_finalize_threads, finalize_threads);

// ---------------------------------------------------------------------- C17: pair subscription is_closed

pub struct Flagged(pub usize);
impl Subscription for Flagged {
  fn unsubscribe(self) {
    unsafe { CTR[self.0] = 1 }
  }
  fn is_closed(&self) -> bool {
    unsafe { CTR[self.0] == 1 }
  }
}
/// ZipSubscription reports closed only if no part can still deliver; unsubscribe closes both
pub fn c17_zip_subscription() {
  reset();
  let a_closed = nd::bool();
  let b_closed = nd::bool();
  unsafe {
    CTR[0] = a_closed as u32;
    CTR[1] = b_closed as u32;
  }
  let z = ZipSubscription::new(Flagged(0), Flagged(1));
  if z.is_closed() {
    assert!(a_closed && b_closed, "ZipSubscription reports closed although one part is still open (it can still deliver)");
  }
  z.unsubscribe();
  assert!(unsafe { CTR[0] == 1 && CTR[1] == 1 }, "ZipSubscription::unsubscribe must unsubscribe both parts");
}
#[cfg(kani)]
#[kani::proof]
fn k_c17_zip_subscription() {
  c17_zip_subscription()
}

/// SubscriptionGuard drop = unsubscribe, once
pub fn c17_guard() {
  reset();
  {
    let _g = Flagged(2).unsubscribe_when_dropped();
    assert!(unsafe { CTR[2] } == 0, "guard unsubscribed early");
  }
  assert!(unsafe { CTR[2] } == 1, "dropping the guard must unsubscribe");
}
#[cfg(kani)]
#[kani::proof]
fn k_c17_guard() {
  c17_guard()
}

// ---------------------------------------------------------------------- C07/C08: the `_at` forms with the clock as a symbolic variable

use std::future::Future;
use std::time::{Duration as StdDuration, Instant as StdInstant};

pub static mut VNOW: u64 = 0;
pub static mut REQUESTED: [u64; 4] = [u64::MAX; 4];
pub static mut NREQ: usize = 0;

/// stub for `std::time::Instant::now` under Kani: a symbolic "now" (whole seconds)
pub fn now_stub() -> StdInstant {
  let zero: StdInstant = unsafe { std::mem::zeroed() };
  zero + StdDuration::from_secs(unsafe { VNOW })
}

/// A scheduler that records the requested delay and runs the task at once.
#[derive(Clone, Copy)]
pub struct Immediate;
impl<T> Scheduler<T> for Immediate
where
  T: Future,
{
  fn schedule(&self, task: T, delay: Option<StdDuration>) -> TaskHandle<T::Output> {
    unsafe {
      if NREQ < 4 {
        REQUESTED[NREQ] = delay.map_or(0, |d| d.as_secs());
        NREQ += 1;
      }
    }
    let waker = noop_waker();
    let mut cx = std::task::Context::from_waker(&waker);
    let mut task = std::pin::pin!(task);
    match task.as_mut().poll(&mut cx) {
      std::task::Poll::Ready(v) => TaskHandle::value_handle(v),
      std::task::Poll::Pending => panic!("harness task is not immediately ready"),
    }
  }
}
fn noop_waker() -> std::task::Waker {
  use std::task::{RawWaker, RawWakerVTable, Waker};
  fn clone(_: *const ()) -> RawWaker {
    RawWaker::new(std::ptr::null(), &VT)
  }
  fn noop(_: *const ()) {}
  static VT: RawWakerVTable = RawWakerVTable::new(clone, noop, noop, noop);
  unsafe { Waker::from_raw(RawWaker::new(std::ptr::null(), &VT)) }
}

macro_rules! at_harness {
  ($fname:ident, $kname:ident, |$at:ident| $build:expr) => {
    /// requested delay = time remaining until the instant, for every (now, at) in 0..=2000 s
    pub fn $fname() {
      reset();
      unsafe {
        NREQ = 0;
        REQUESTED = [u64::MAX; 4];
      }
      let now_s = nd::u64();
      let at_s = nd::u64();
      nd::assume(now_s <= 2000 && at_s <= 2000);
      #[cfg(kani)]
      let $at: StdInstant = {
        unsafe { VNOW = now_s };
        let zero: StdInstant = unsafe { std::mem::zeroed() };
        zero + StdDuration::from_secs(at_s)
      };
      #[cfg(not(kani))]
      let $at: StdInstant = {
        let n = StdInstant::now();
        if at_s >= now_s {
          n + StdDuration::from_secs(at_s - now_s)
        } else {
          n.checked_sub(StdDuration::from_secs(now_s - at_s)).unwrap_or(n)
        }
      };
      $build;
      let want = if at_s > now_s { at_s - now_s } else { 0 };
      let mut found = false;
      let mut i = 0;
      while i < 4 {
        let r = unsafe { REQUESTED[i] };
        // natively the real clock moves on between computing `at` and the call: allow one second
        if r != u64::MAX && (r == want || (cfg!(not(kani)) && r + 1 == want)) {
          found = true;
        }
        i += 1;
      }
      crate::cover!(at_s > now_s + 5, "instant in the future");
      crate::cover!(at_s < now_s, "instant in the past");
      // only "never earlier" is claimed: a future instant must produce a request of the remaining time
      if want > 0 {
        assert!(found, "the `_at` form did not request the time remaining until the instant");
      }
    }
    #[cfg(kani)]
    #[kani::proof]
    #[kani::stub(std::time::Instant::now, now_stub)]
    #[kani::unwind(6)]
    fn $kname() {
      $fname()
    }
  };
}

at_harness!(c07_delay_at, k_c07_delay_at, |at| observable::of(1u8).delay_at(at, Immediate).actual_subscribe(ProbeI));
at_harness!(c07_delay_subscription_at, k_c07_delay_subscription_at, |at| observable::of(1u8).delay_subscription_at(at, Immediate).actual_subscribe(ProbeI));
at_harness!(c07_timer_at, k_c07_timer_at, |at| observable::timer_at(1u8, at, Immediate).actual_subscribe(ProbeI));

/// infallible-error probe for the sources above
#[derive(Clone, Copy)]
pub struct ProbeI;
impl Observer<u8, std::convert::Infallible> for ProbeI {
  fn next(&mut self, _v: u8) {}
  fn error(self, _e: std::convert::Infallible) {}
  fn complete(self) {}
  fn is_finished(&self) -> bool {
    false
  }
}
