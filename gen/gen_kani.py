#!/usr/bin/env python3
"""Generates /verif/kani/src/gen.rs (Kani harnesses) and /verif/kani/harnesses.json from the
operator catalogue below, and reports operators of /repo that have no catalogue entry.
Run by ./check on every run (the harness sources are regenerated from /repo's current tree:
the catalogue is checked against `ObservableExt`'s methods and `impl Observer for` types)."""
import json, os, re, sys

ROOT = os.path.dirname(os.path.dirname(os.path.abspath(__file__)))
REPO = os.environ.get("VERIF_REPO", "/repo")
K = 4

# ---------------------------------------------------------------- single-input operators
# name: (build-expr with {src}, probe, model snippet, quick?)
# model snippet works on: xs[..len], term (0 none, 1 complete, 2 error), ev, n, th, pk, want
PRED = "pred(pk, th, {v})"
UNARY = {
 "map": ("{src}.map(move |v: u8| v.wrapping_add(th))", "Probe", """
    for i in 0..len { want.next(xs[i].wrapping_add(th)); }
    tail(&mut want, term, ev);""", True),
 "map_to": ("{src}.map_to(th)", "Probe", """
    for _i in 0..len { want.next(th); }
    tail(&mut want, term, ev);""", False),
 "filter": ("{src}.filter(move |v: &u8| pred(pk, th, *v))", "Probe", """
    for i in 0..len { if pred(pk, th, xs[i]) { want.next(xs[i]); } }
    tail(&mut want, term, ev);""", True),
 "filter_map": ("{src}.filter_map(move |v: u8| if pred(pk, th, v) { Some(v.wrapping_add(1)) } else { None })", "Probe", """
    for i in 0..len { if pred(pk, th, xs[i]) { want.next(xs[i].wrapping_add(1)); } }
    tail(&mut want, term, ev);""", False),
 "tap": ("{src}.tap(|_v: &u8| unsafe { CTR[0] += 1 })", "Probe", """
    for i in 0..len { want.next(xs[i]); }
    tail(&mut want, term, ev);
    assert!(unsafe { CTR[0] } as usize == len, "tap: callback count differs from item count");""", False),
 "take": ("{src}.take(n)", "Probe", """
    let mut hits = 0usize;
    for i in 0..len { if hits < n { want.next(xs[i]); hits += 1; if hits == n { want.push(K_COMPLETE, 0, 0); } } }
    tail(&mut want, term, ev);""", True),
 "skip": ("{src}.skip(n)", "Probe", """
    for i in 0..len { if i >= n { want.next(xs[i]); } }
    tail(&mut want, term, ev);""", True),
 "take_while": ("{src}.take_while(move |v: &u8| pred(pk, th, *v))", "Probe", """
    for i in 0..len { if pred(pk, th, xs[i]) { want.next(xs[i]); } else { want.push(K_COMPLETE, 0, 0); } }
    tail(&mut want, term, ev);""", True),
 "take_while_inclusive": ("{src}.take_while_inclusive(move |v: &u8| pred(pk, th, *v))", "Probe", """
    for i in 0..len { if pred(pk, th, xs[i]) { want.next(xs[i]); } else { want.next(xs[i]); want.push(K_COMPLETE, 0, 0); } }
    tail(&mut want, term, ev);""", False),
 "skip_while": ("{src}.skip_while(move |v: &u8| pred(pk, th, *v))", "Probe", """
    let mut skipping = true;
    for i in 0..len { if skipping && pred(pk, th, xs[i]) { continue; } skipping = false; want.next(xs[i]); }
    tail(&mut want, term, ev);""", True),
 "first": ("{src}.first()", "Probe", """
    if len > 0 { want.next(xs[0]); want.push(K_COMPLETE, 0, 0); }
    tail(&mut want, term, ev);""", False),
 "first_or": ("{src}.first_or(th)", "Probe", """
    if len > 0 { want.next(xs[0]); want.push(K_COMPLETE, 0, 0); }
    if len == 0 && term == 1 { want.next(th); }
    tail(&mut want, term, ev);""", True),
 "last": ("{src}.last()", "Probe", """
    if term == 1 && len > 0 { want.next(xs[len - 1]); }
    tail(&mut want, term, ev);""", True),
 "last_or": ("{src}.last_or(th)", "Probe", """
    if term == 1 { if len > 0 { want.next(xs[len - 1]); } else { want.next(th); } }
    tail(&mut want, term, ev);""", False),
 "element_at": ("{src}.element_at(n)", "Probe", """
    if len > n { want.next(xs[n]); want.push(K_COMPLETE, 0, 0); }
    tail(&mut want, term, ev);""", True),
 "ignore_elements": ("{src}.ignore_elements()", "Probe", """
    tail(&mut want, term, ev);""", False),
 "default_if_empty": ("{src}.default_if_empty(th)", "Probe", """
    for i in 0..len { want.next(xs[i]); }
    if len == 0 && term == 1 { want.next(th); }
    tail(&mut want, term, ev);""", True),
 "scan_initial": ("{src}.scan_initial(th, |a: u8, v: u8| a.wrapping_add(v))", "Probe", """
    let mut acc = th;
    for i in 0..len { acc = acc.wrapping_add(xs[i]); want.next(acc); }
    tail(&mut want, term, ev);""", True),
 "reduce_initial": ("{src}.reduce_initial(th, |a: u8, v: u8| a.wrapping_add(v))", "Probe", """
    let mut acc = th;
    for i in 0..len { acc = acc.wrapping_add(xs[i]); }
    if term == 1 { want.next(acc); }
    tail(&mut want, term, ev);""", True),
 "count": ("{src}.count()", "ProbeU", """
    if term == 1 { want.next(len as u8); }
    tail(&mut want, term, ev);""", False),
 "max": ("{src}.max()", "Probe", """
    if term == 1 && len > 0 { let mut m = xs[0]; for i in 1..len { if !(m > xs[i]) { m = xs[i]; } } want.next(m); }
    tail(&mut want, term, ev);""", True),
 "min": ("{src}.min()", "Probe", """
    if term == 1 && len > 0 { let mut m = xs[0]; for i in 1..len { if !(m < xs[i]) { m = xs[i]; } } want.next(m); }
    tail(&mut want, term, ev);""", False),
 "distinct_until_changed": ("{src}.distinct_until_changed()", "Probe", """
    let mut last: Option<u8> = None;
    for i in 0..len { if last != Some(xs[i]) { last = Some(xs[i]); want.next(xs[i]); } }
    tail(&mut want, term, ev);""", True),
 "distinct_until_key_changed": ("{src}.distinct_until_key_changed(|v: &u8| *v % 2)", "Probe", """
    let mut last: Option<u8> = None;
    for i in 0..len { if last != Some(xs[i] % 2) { last = Some(xs[i] % 2); want.next(xs[i]); } }
    tail(&mut want, term, ev);""", False),
 "pairwise": ("{src}.pairwise()", "ProbeP", """
    for i in 1..len { want.push(K_NEXT, xs[i - 1], xs[i]); }
    tail(&mut want, term, ev);""", True),
 "contains": ("{src}.contains(th)", "ProbeB", """
    for i in 0..len { if xs[i] == th { want.next(1); want.push(K_COMPLETE, 0, 0); } }
    if term == 1 { want.next(0); }
    tail(&mut want, term, ev);""", True),
 "all": ("{src}.all(move |v: u8| pred(pk, th, v))", "ProbeB", """
    for i in 0..len { if !pred(pk, th, xs[i]) { want.next(0); want.push(K_COMPLETE, 0, 0); } }
    if term == 1 { want.next(1); }
    tail(&mut want, term, ev);""", True),
 "on_error_map": ("{src}.on_error_map(move |e: u8| e.wrapping_add(th))", "Probe", """
    for i in 0..len { want.next(xs[i]); }
    tail(&mut want, term, ev.wrapping_add(th));""", True),
 "finalize": ("{src}.finalize(|| unsafe { CTR[1] += 1 })", "Probe", """
    for i in 0..len { want.next(xs[i]); }
    tail(&mut want, term, ev);
    assert!(unsafe { CTR[1] } == (term != 0) as u32, "finalize: callback count");""", False),
}

# which ObservableExt methods the unary catalogue / other harness families cover
COVERED_ELSEWHERE = {
 "sum": "engine S (u8 `+` overflow panics in the dev profile Kani models)", "average": "engine S (floats)", "reduce": "engine S", "scan": "engine S",
 "distinct": "engine S (HashSet: SipHash is SAT-hard)", "distinct_key": "engine S (HashSet)", "group_by": "engine S (HashMap)",
 "buffer_with_count": "engine S (CBMC reports spurious free() preconditions on Vec buffers)", "collect": "engine S (Vec)", "collect_into": "engine S (Vec)", "start_with": "engine S (Vec)",
 "merge": "k_c04", "merge_threads": "k_c04", "zip": "k_c04", "zip_threads": "k_c04", "combine_latest": "k_c04", "combine_latest_threads": "k_c04",
 "with_latest_from": "k_c04", "with_latest_from_threads": "k_c04", "take_until": "k_c04", "take_until_threads": "k_c04", "skip_until": "k_c04", "skip_until_threads": "k_c04",
 "sample": "k_c04", "sample_threads": "k_c04", "buffer": "engine S (Vec)",
 "finalize_threads": "k_c15", "timestamp": "not in any property", "take_last": "engine S (VecDeque: CBMC runs out of memory)", "skip_last": "engine S (VecDeque: CBMC runs out of memory)",
}
SCHED = ["delay", "delay_threads", "delay_at", "delay_at_threads", "delay_subscription", "delay_subscription_at", "subscribe_on", "observe_on", "observe_on_threads", "debounce", "throttle", "throttle_time",
         "buffer_with_time", "buffer_with_count_and_time", "merge_all", "merge_all_threads", "concat_all", "concat_all_threads", "flatten", "flatten_threads", "flat_map", "flat_map_threads", "concat_map", "concat_map_threads",
         "publish", "share", "share_threads", "to_future", "to_stream", "complete_status", "on_error", "on_complete"]

HEAD = """//! GENERATED by gen/gen_kani.py — do not edit.
use crate::nd;
use crate::voc::*;
use rxrust::prelude::*;
use rxrust::rc::{MutArc, MutRc};

pub const K: usize = %d;

fn tail(want: &mut Want, term: u8, ev: u8) {
  if term == 1 { want.push(K_COMPLETE, 0, 0); }
  if term == 2 { want.push(K_ERROR, ev, 0); }
}
""" % K

UNARY_TMPL = """
/// C03/C01: `{name}` driven directly over every script of <= K events, vs its list semantics
pub fn c03_{name}() {{
  reset();
  let n = nd::usize();
  nd::assume(n <= K + 1);
  let th = nd::u8();
  let pk = nd::u8();
  nd::assume(pk <= 2);
  let _ = (n, th, pk);
  let mut slot = None;
  {build}.actual_subscribe({probe});
  let mut xs = [0u8; K];
  let mut len = 0usize;
  let mut term = 0u8;
  let mut ev = 0u8;
  let mut i = 0;
  while i < K {{
    let e = draw_evt();
    if e.k == K_NEXT {{
      if let Some(o) = slot.as_mut() {{ Observer::<u8, u8>::next(o, e.v); }}
      xs[len] = e.v;
      len += 1;
    }} else if e.k == K_COMPLETE {{
      if let Some(o) = slot.take() {{ Observer::<u8, u8>::complete(o); }}
      term = 1;
    }} else {{
      if let Some(o) = slot.take() {{ Observer::<u8, u8>::error(o, e.v); }}
      term = 2;
      ev = e.v;
    }}
    if term != 0 {{ break; }}
    i += 1;
  }}
  let mut want = Want::new();
  {{{model}
  }}
  crate::cover!(unsafe {{ LEN }} >= 1, "probe saw at least one event");
  crate::cover!(term == 2, "script ended with an error");
  assert!(want.matches_log(), "{name}: delivered sequence differs from the list semantics");
  assert!(unsafe {{ !GRAMMAR_BROKEN }}, "{name}: event after terminal");
}}
#[cfg(kani)]
#[kani::proof]
#[kani::unwind({unwind})]
fn k_c03_{name}() {{
  c03_{name}()
}}
"""

C16_TMPL = """
/// C16: is_finished forwarding through `{name}`: once the subscriber below a `take(1)` has
/// terminated, the captured observer must report finished
pub fn c16_{name}() {{
  reset();
  let n = nd::usize();
  nd::assume(n <= 1);
  let th = nd::u8();
  let pk = nd::u8();
  nd::assume(pk <= 2);
  let _ = (n, th, pk);
  let mut slot = None;
  {build}.take(1).actual_subscribe({probe});
  let mut i = 0;
  while i < K {{
    let v = nd::u8();
    if let Some(o) = slot.as_mut() {{
      let before = Observer::<u8, u8>::is_finished(o);
      assert!(before == unsafe {{ TERMINATED }} || before, "{name}: is_finished() false although downstream terminated");
      Observer::<u8, u8>::next(o, v);
    }}
    i += 1;
  }}
  crate::cover!(unsafe {{ TERMINATED }}, "downstream terminated early");
  if unsafe {{ TERMINATED }} {{
    assert!(slot.as_ref().map_or(true, |o| Observer::<u8, u8>::is_finished(o)), "{name}: is_finished() not forwarded");
  }}
}}
#[cfg(kani)]
#[kani::proof]
#[kani::unwind({unwind})]
fn k_c16_{name}() {{
  c16_{name}()
}}
"""

C13_TMPL = """
/// C13: two subscriptions of clones of `{name}` are independent and equal
pub fn c13_{name}() {{
  reset();
  let n = nd::usize();
  nd::assume(n <= K);
  let th = nd::u8();
  let pk = nd::u8();
  nd::assume(pk <= 2);
  let _ = (n, th, pk);
  let mut xs = [0u8; 3];
  xs[0] = nd::u8(); xs[1] = nd::u8(); xs[2] = nd::u8();
  let len = nd::usize();
  nd::assume(len <= 3);
  let src = observable::create(move |mut s: Subscriber<_>| {{
    unsafe {{ CTR[2] += 1 }};
    let mut i = 0;
    while i < 3 {{ if i < len {{ s.next(xs[i]); }} i += 1; }}
    s.complete();
  }});
  let op = {build_src};
  assert!(unsafe {{ CTR[2] }} == 0, "{name}: the source ran while the pipeline was built");
  let a = op.clone();
  a.actual_subscribe({probe});
  let l1 = unsafe {{ LEN }};
  let (k1, v1, w1) = unsafe {{ (LOG_K, LOG_V, LOG_W) }};
  unsafe {{ LEN = 0; TERMINATED = false; }}
  op.actual_subscribe({probe});
  let l2 = unsafe {{ LEN }};
  assert!(l1 == l2, "{name}: second subscription delivered a different number of events");
  let mut i = 0;
  while i < CAP {{
    if i < l1 {{ unsafe {{ assert!(k1[i] == LOG_K[i] && v1[i] == LOG_V[i] && w1[i] == LOG_W[i], "{name}: second subscription differs"); }} }}
    i += 1;
  }}
  assert!(unsafe {{ CTR[2] }} == 2, "{name}: source must run once per subscription");
  crate::cover!(l1 >= 2, "first subscription saw two events");
}}
#[cfg(kani)]
#[kani::proof]
#[kani::unwind({unwind})]
fn k_c13_{name}() {{
  c13_{name}()
}}
"""


HOT_TMPL = """
/// C01/C02/C17: `{name}` behind the library's own `create` subscriber handle: events through
/// cloned handles after terminals, unsubscribe at a symbolic position, is_closed() sampled
pub fn hot_{name}() {{
  reset();
  let n = nd::usize();
  nd::assume(n <= K);
  let th = nd::u8();
  let pk = nd::u8();
  nd::assume(pk <= 2);
  let _ = (n, th, pk);
  let mut stash = None;
  let src = observable::create(|s: Subscriber<_>| {{ stash = Some(s); }});
  let sub = {build_src}.actual_subscribe({probe});
  let mut h = stash.unwrap();
  let mut sub = Some(sub);
  let cut = nd::usize();
  nd::assume(cut <= K);
  let mut closed_seen = false;
  let mut i = 0;
  while i < K {{
    if i == cut {{
      if let Some(u) = sub.take() {{
        u.unsubscribe();
        unsafe {{ SILENCED = true }};
        assert!(h.is_closed(), "{name}: source-side handle open after unsubscribe()");
      }}
    }}
    let e = draw_evt();
    if e.k == K_NEXT {{
      Observer::<u8, u8>::next(&mut h, e.v);
    }} else if e.k == K_COMPLETE {{
      Observer::<u8, u8>::complete(h.clone());
    }} else {{
      Observer::<u8, u8>::error(h.clone(), e.v);
    }}
    if let Some(u) = sub.as_ref() {{
      let c = u.is_closed();
      assert!(!(closed_seen && !c), "{name}: is_closed() went from true back to false");
      if c {{ closed_seen = true; unsafe {{ SILENCED = true }}; }}
    }}
    i += 1;
  }}
  crate::cover!(unsafe {{ LEN }} >= 2, "probe saw at least two events");
  crate::cover!(cut < K && unsafe {{ LEN }} >= 1, "unsubscribed inside the script after a delivery");
  assert!(unsafe {{ !GRAMMAR_BROKEN }}, "{name}: event after terminal");
  assert!(unsafe {{ !AFTER_SILENCE }}, "{name}: delivery after unsubscribe() returned / after is_closed() returned true");
}}
#[cfg(kani)]
#[kani::proof]
#[kani::unwind({unwind})]
fn k_hot_{name}() {{
  hot_{name}()
}}
"""


def gen():
    out = [HEAD]
    hs = []
    for name, (build, probe, model, quick) in UNARY.items():
        b = build.replace("{src}", "Grab(&mut slot)")
        unwind = K + 9
        out.append(UNARY_TMPL.format(name=name, build=b, probe=probe, model=model, unwind=unwind))
        hs.append(dict(name=f"k_c03_{name}", fn=f"c03_{name}", props=["C03", "C01"], quick=quick, about=f"{name}: all scripts of <= {K} u8 events, parameters 0..={K+1}, vs list semantics"))
    for name, (build, probe, model, quick) in UNARY.items():
        if name in ("finalize", "tap", "contains", "all", "count", "pairwise"):
            pass
        if probe != "Probe" or name in ("last", "last_or", "take_last", "reduce_initial", "max", "min", "ignore_elements", "skip_last", "first", "first_or", "element_at", "default_if_empty"):
            continue
        b = build.replace("{src}", "Grab(&mut slot)")
        out.append(C16_TMPL.format(name=name, build=b, probe=probe, unwind=K + 9))
        hs.append(dict(name=f"k_c16_{name}", fn=f"c16_{name}", props=["C16"], quick=name in ("map", "filter", "skip", "scan_initial", "take_while", "distinct_until_changed", "on_error_map", "tap", "finalize"), about=f"{name}: is_finished() forwarded to the producer once a downstream take(1) completed"))
    for name in ("take", "skip", "scan_initial", "distinct_until_changed", "last", "default_if_empty", "reduce_initial", "skip_while"):
        build, probe, model, quick = UNARY[name]
        b = build.replace("{src}", "src")
        out.append(C13_TMPL.format(name=name, build_src=b, probe=probe, unwind=K + 9))
        hs.append(dict(name=f"k_c13_{name}", fn=f"c13_{name}", props=["C13"], quick=name in ("take", "scan_initial", "last", "distinct_until_changed"), about=f"{name}: two subscriptions of clones over a cold create() source are equal; source runs once per subscription, never at build time"))
    for name in ("take", "filter", "skip", "map", "take_while", "scan_initial", "default_if_empty"):
        build, probe, model, quick = UNARY[name]
        b = build.replace("{src}", "src")
        out.append(HOT_TMPL.format(name=name, build_src=b, probe=probe, unwind=K + 9))
        hs.append(dict(name=f"k_hot_{name}", fn=f"hot_{name}", props=["C01", "C02", "C17"], quick=name in ("take", "filter"), about=f"{name} behind a create() subscriber handle: {K} events through cloned handles incl. after terminals, unsubscribe at a symbolic position, is_closed() sampled after every step"))
    out.append(open(os.path.join(ROOT, "gen", "kani_static.rs")).read())
    hs += json.load(open(os.path.join(ROOT, "gen", "kani_static.json")))
    open(os.path.join(ROOT, "kani", "src", "gen.rs"), "w").write("\n".join(out))
    # replay dispatcher
    disp = ["//! GENERATED: native replay entry", "pub fn run(name: &str) -> bool {", "  match name {"]
    for h in hs:
        disp.append(f'    "{h["name"]}" => crate::gen::{h["fn"]}(),')
    disp += ["    _ => return false,", "  }", "  true", "}"]
    open(os.path.join(ROOT, "kani", "src", "dispatch.rs"), "w").write("\n".join(disp) + "\n")
    # coverage of the operator catalogue against /repo
    src = open(os.path.join(REPO, "src", "observable.rs")).read()
    body = src[src.index("pub trait ObservableExt"):src.index("#[cfg(test)]\nmod tests") if "#[cfg(test)]\nmod tests" in src else len(src)]
    methods = sorted(set(re.findall(r"\n  fn ([a-z_0-9]+)<?", body)))
    known = set(UNARY) | set(COVERED_ELSEWHERE) | set(SCHED) | {"first", "last"}
    uncovered = [m for m in methods if m not in known]
    json.dump(dict(harnesses=hs, observable_ext_methods=len(methods), not_in_kani_catalogue={m: COVERED_ELSEWHERE.get(m, "scheduler / subject based: engine S") for m in methods if m not in UNARY}, unknown_operators=uncovered), open(os.path.join(ROOT, "kani", "harnesses.json"), "w"), indent=1)
    return hs, uncovered


if __name__ == "__main__":
    hs, unc = gen()
    print(len(hs), "harnesses; operators without any catalogue entry:", unc)
