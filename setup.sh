#!/bin/sh
# Build the engines from files on disk only (offline).
set -e
cd "$(dirname "$0")"
export CARGO_NET_OFFLINE=true
mkdir -p .cache/sx-target out evidence
ln -sfn "${VERIF_REPO:-/repo}" .cache/repo
(cd sx && cargo build --offline --release --target-dir ../.cache/sx-target 2>&1 | tail -3)
.cache/sx-target/release/sx selftest
if [ -x lib/kani_setup.sh ]; then lib/kani_setup.sh; fi
echo setup done
