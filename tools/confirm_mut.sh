#!/bin/bash
# usage: confirm_mut.sh <worktree> <mutationN> <seeded-id>
# Confirms in the scratch worktree: suite passes with the change, demo fails with it and passes without; then stores it under /verif/seeded/<id>/.
wt="$1"; m="$2"; id="$3"
cd "$wt" || exit 2
git checkout -q -- src; rm -f tests/demo.rs
log=/tmp/confirm-$id.log; : > $log
git apply "$m/patch.diff" || { echo "APPLY-FAIL" >> $log; exit 3; }
suite_out=$(cargo test --offline 2>&1)
failed=$(echo "$suite_out" | grep -E "^test .* FAILED$" | grep -v "ops::delay::tests::shared_smoke" | tr '\n' ' ')
if echo "$suite_out" | grep -q "ops::delay::tests::shared_smoke ... FAILED"; then
  # known timing-flaky test (dropped from the baseline): re-run the lib tests without it
  suite_out=$(cargo test --offline -- --skip shared_smoke 2>&1)
  failed=$(echo "$suite_out" | grep -E "^test .* FAILED$" | tr '\n' ' ')
fi
if [ -n "$failed" ]; then
  # timing-sensitive tests flicker when the machine is loaded: each failing test must fail again on its own to count
  still=""
  for t in $(echo "$suite_out" | grep -E "^test .* FAILED$" | awk '{print $2}'); do
    ok_once=0
    for k in 1 2 3; do
      if cargo test --offline --lib -- --exact "$t" 2>&1 | grep -q "test result: ok. 1 passed"; then ok_once=1; break; fi
    done
    [ $ok_once = 0 ] && still="$still $t"
  done
  failed="$still"
  if [ -z "$failed" ]; then suite_out=$(echo "$suite_out" | sed 's/^test result: FAILED\. \([0-9]*\) passed; [0-9]* failed/test result: ok. \1 passed (flaky tests re-run individually: passed); 0 failed/'); fi
fi
suite=$(echo "$suite_out" | grep -E "^test result" | tr '\n' ' ')
echo "suite-with-change: $suite failed=[$failed]" >> $log
mkdir -p tests; cp "$m/demo.rs" tests/demo.rs
demo_with=$(timeout 300 cargo test --offline --test demo 2>&1 | grep -E "^test result" | head -3 | tr '\n' ' ')
echo "demo-with-change: $demo_with" >> $log
git checkout -q -- src
demo_without=$(timeout 300 cargo test --offline --test demo 2>&1 | grep -E "^test result" | head -3 | tr '\n' ' ')
echo "demo-without-change: $demo_without" >> $log
rm -f tests/demo.rs
ok=1
echo "$suite" | grep -q "FAILED" && ok=0
echo "$suite" | grep -q "ok\." || ok=0
echo "$demo_with" | grep -q "FAILED" || ok=0
echo "$demo_without" | grep -q "test result: ok" || ok=0
if [ $ok = 1 ]; then
  d=/verif/seeded/$id; mkdir -p $d
  cp "$m/patch.diff" "$m/demo.rs" $d/
  python3 - "$m/meta.json" "$d/meta.json" "$suite" "$demo_with" "$demo_without" <<'PY'
import json,sys
src,dst,suite,dw,dwo=sys.argv[1:]
d=json.load(open(src))
d['confirmed']={'suite_with_change':suite.strip(),'demo_with_change':dw.strip(),'demo_without_change':dwo.strip(),'how':'tools/confirm_mut.sh in a scratch worktree: git apply patch; cargo test --offline; cargo test --offline --test demo; git checkout -- src; cargo test --offline --test demo'}
json.dump(d,open(dst,'w'),indent=1)
PY
  echo "CONFIRMED $id" >> $log
else
  echo "NOT-CONFIRMED $id" >> $log
fi
cat $log
