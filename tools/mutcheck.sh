#!/bin/bash
# usage: tools/mutcheck.sh <patch.diff> <PROP> [<PROP>...]   -- applies the patch to /repo, runs quick checks, reverts
set -u
patch="$1"; shift
REPO=${VERIF_REPO:-/repo}
VERIF=$(cd "$(dirname "$0")/.." && pwd)
cd $REPO || exit 2
if ! git diff --quiet; then echo "/repo has local changes; refusing"; exit 2; fi
# prefer a rebased copy of the patch when the seeded one predates a fix: commit
[ -f "${patch%.diff}.rebased.diff" ] && patch="${patch%.diff}.rebased.diff"
if ! git apply --check "$patch" 2>/dev/null; then echo "PATCH-DOES-NOT-APPLY $patch"; exit 3; fi
git apply "$patch"
trap 'cd $REPO && git reset -q --hard HEAD' EXIT
cd $VERIF
for p in "$@"; do
  out=$(./check "$p" --tier ${TIER:-quick} 2>&1); rc=$?
  echo "== $p exit=$rc"
  echo "$out" | grep -E "VIOLATION|harness=|INCONCLUSIVE|KNOWN" | head -8
done
