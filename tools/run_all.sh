#!/bin/bash
# runs every claimed quick (or $TIER) check sequentially; prints exit code and wall time
cd "$(dirname "$0")/.."
for p in $(python3 -c "import json;print(' '.join(c['property_id'] for c in json.load(open('MANIFEST.json'))['checks']))"); do
  s=$(date +%s.%N)
  out=$(./check $p --tier ${TIER:-quick} 2>&1); rc=$?
  e=$(date +%s.%N)
  printf "%s exit=%s %.1fs\n" $p $rc $(echo "$e - $s" | bc)
  echo "$out" | grep -E "VIOLATION|KNOWN|INCONCLUSIVE|harness=" | head -6
done
