#!/usr/bin/env python3
"""Source of checks.json (per-property metadata used by ./check for evidence and by gen_manifest.py)."""
import json, os
ROOT = os.path.dirname(os.path.dirname(os.path.abspath(__file__)))

SX_TRUST = "Trusted: z3 4.8.12 (a sample of queries is re-asked to cvc5 on every run), rustc, the harness-side environment model (probe, virtual clock/timers, executors, logical threads: sx/src/world.rs) and the reference semantics (sx/src/model.rs). rxRust itself runs natively and unmodified except for the verif_hooks feature (model mutex + yield points)."
SX_RULE = "a case = one path of the forking executor (one value of every harness choice variable x one solver-feasible outcome of every comparison the real code or the oracle makes on symbolic data); non-trivial = at least one branch or property query on that path was decided by the SMT solver rather than constant-folded"
SX_EXPL = "Engine S runs the natively compiled rxRust instantiated with a symbolic item type. Every comparison on item/error/threshold values forks through z3 under the path condition; harness nondeterminism (event kinds, interleavings, cut points, task run order, clock advance, pre-emption) is a finite-domain solver variable forked by re-execution; at each property point z3 decides pc && !property. Counterexamples are replayed concretely in a fresh process before being reported."
K_TRUST = "Trusted: Kani 0.68 / CBMC 6.11 (cadical), their memory model; unwinding assertions are on, so a too-small bound is a failure, not a silent truncation. Failures are reported only after native replay of the concrete values."
OUT_COMMON = ["scripts, chains, subscriber counts and horizons beyond the stated bounds", "item types other than the symbolic integer (engine S) / u8 (engine K)"]
OUT_THREADS = ["non-nested pre-emption (both logical threads suspended mid-operation at once), more than the stated pre-emption bound", "weak-memory effects of Relaxed atomics (the engine is sequentially consistent)"]
OUT_SCHED = ["the real futures ThreadPool / tokio executors (modelled by the ANY executor: any ready task may run next) and futures-time timers (replaced by the virtual clock through NEW_TIMER_FN)"]


def mk(engine, level, technique, text, note, functions, bounds, outside, assumptions, rule=SX_RULE, expl=SX_EXPL, design="DESIGN.md §6"):
    return dict(engine=engine, level=level, technique=technique, level_text=text, level_note=note, functions_encoded=functions, bounds=bounds, outside=outside, assumptions=assumptions, rule=rule, explanation=expl, design_ref=design)


C = {}
C["C01"] = mk("sx+kani", "model_checking", "bounded symbolic execution of the real observer chains (z3) + Kani/CBMC bounded model checking of operator observers, grammar monitor on the probe",
  "Bounded: every chain up to the depth bound drawn at run time from the whole catalogue (unary, two-input with extra hot inputs, scheduler and subject based stages), every script of arbitrary events (incl. post-terminal events and repeated terminals through cloned handles) up to the length bound. A three-state grammar monitor in the probe fails the path on any event after a terminal; for single-input chains the log is also compared with the list oracle by z3.",
  SX_TRUST, ["src/observer.rs", "src/subscriber.rs", "src/ops/*.rs observers", "src/subject.rs", "src/ops/merge_all.rs", "src/ops/ref_count.rs", "src/ops/group_by.rs"],
  "quick: depth 1 exhaustive with 4 events, depth 2 sampled with 3 events; thorough: depth 1 with 5, depth 2 exhaustive with 4", OUT_COMMON + ["re-entrant emission from inside a callback (subjects: see C06)"], ["hot inputs are observable::create subscriber handles or subjects"])
C["C02"] = mk("sx", "other", "bounded symbolic execution with the unsubscribe point, task run order and clock advance as solver-visible choice variables",
  "Bounded: unsubscribe() or guard drop injected at every position of the script / virtual-time line; afterwards the script continues, every executor order is drained and the clock is advanced past every pending deadline; any probe callback after unsubscribe() returned fails the path. Thread part: unsubscribe as a second logical thread pre-empting the emitter at lock acquisitions.",
  SX_TRUST, ["src/subscription.rs", "src/subscriber.rs", "src/scheduler.rs (TaskHandle, Remote::poll)", "src/ops/{delay,observe_on,subscribe_on,debounce,throttle,buffer,merge_all,ref_count,finalize}.rs", "src/observable/{interval,timer,from_future,from_stream}.rs"],
  "non-scheduler chains depth 1 (quick) / 2 (thorough), 4 events; scheduler operators: <=3 timed items, delays/windows from {1,2}, FIFO and ANY executors", OUT_COMMON + OUT_SCHED + OUT_THREADS, ["virtual clock and executors of sx/src/world.rs"])
C["C03"] = mk("sx+kani", "model_checking", "symbolic execution of the real operator code (generic instantiation with SMT terms; z3 decides every comparison and the final log == oracle query) + Kani/CBMC differential harnesses vs the list oracle",
  "Bounded: for every operator chain up to the depth bound and every script up to the length bound, item, error, threshold and seed values are unconstrained SMT integers; z3 decides each comparison the real code performs and, per path, the validity of `delivered sequence == reference list semantics`. Kani harnesses decide the same equality for single operators over u8 items in one SAT query per harness.",
  SX_TRUST + " " + K_TRUST, ["src/ops/{map,map_to,filter,filter_map,tap,take,skip,take_while,skip_while,take_last,skip_last,last,default_if_empty,scan,distinct,pairwise,buffer,contains,collect,on_error_map,start_with,box_it}.rs", "src/observable.rs (first, first_or, last_or, element_at, ignore_elements, all, reduce*, count, sum, min, max, average)", "src/observable/{from_fn,of,from_iter,trivial,start,defer}.rs"],
  "quick: depth 1 exhaustive (<=3 items), depth 2 exhaustive (<=2 items), depth 3 sampled; thorough: depth 1 (<=4), depth 2 (<=3), depth 3 sampled under a 6M path budget", OUT_COMMON + ["IEEE behaviour of average (integer division model)"], ["reference list semantics of DESIGN.md Appendix A"])
C["C04"] = mk("sx+kani", "model_checking", "bounded symbolic execution along every merged timeline of two hot inputs vs a timeline oracle (z3) + Kani/CBMC timeline harnesses",
  "Bounded: every merged timeline (side x kind per event, values symbolic) of the two hot inputs up to the length bound, local and _threads forms, compared with the timeline interpreter; errors on either input of the shared-error operators must terminate the output exactly once.",
  SX_TRUST, ["src/ops/{merge,zip,combine_latest,with_latest_from,take_until,skip_until,sample,buffer}.rs"], "quick: 5 events (local), 4 (threads); thorough: 6 events", OUT_COMMON, ["timeline semantics of DESIGN.md Appendix A (zip completion and skip_until-on-notifier-completion accept both readings)"])
C["C13"] = mk("sx", "other", "bounded symbolic execution of cold chains with call counters; three subscriptions (sequential and nested) each compared with the oracle by z3",
  "Bounded: nothing may run while the chain is built (source and closure counters stay 0); three subscriptions of clones, one of them made from inside the first one's callback, each reproduce the oracle; the source runs exactly once per subscription.",
  SX_TRUST, ["src/ops/*.rs (Clone operators)", "src/observable/{defer,of,start,from_fn,from_iter,from_future}.rs"], "depth 1 (quick) / 2 (thorough), scripts <= 3 items", OUT_COMMON, [])
C["C15"] = mk("sx", "other", "bounded symbolic execution over every order of complete/error/unsubscribe through cloned handles; thread part with pre-emption at lock acquisitions",
  "Bounded: any item prefix, then any order of complete / error / unsubscribe, repeated through cloned handles (5-6 steps), optional operator before and after finalize; the finalizer counter must be 0 before the first trigger, 1 right after it, never 2, and the call must not precede the downstream terminal. finalize_threads: a terminating and an unsubscribing logical thread with pre-emption at every lock acquisition.",
  SX_TRUST, ["src/ops/finalize.rs"], "5 steps quick, 6 thorough; 2 logical threads x 2 ops", OUT_COMMON + OUT_THREADS, [])
C["C16"] = mk("sx", "other", "bounded symbolic execution: is_finished forwarding obligation per operator/position + producers on the virtual-time executor",
  "Bounded: (a) for every catalogue stage and input position, once the subscriber has terminated every hot producer handle must see is_finished() == true; (b) interval / from_iter over a counting iterator / from_stream under early-terminating operators: no live task remains after the terminal plus one period, iterator pulls are bounded.",
  SX_TRUST, ["src/ops/*.rs (is_finished)", "src/observable/{interval,from_iter,from_stream}.rs", "src/scheduler.rs (RepeatTask)"], "depth 1 (quick) / 2 (thorough); 4 events; producers: n+2 periods", OUT_COMMON + OUT_SCHED, [])
C["C17"] = mk("sx", "other", "bounded symbolic execution with is_closed() sampled after every step; composite-subscription histories",
  "Bounded: is_closed() sampled after every step of an arbitrary script: once true it stays true and no delivery follows; after unsubscribe() the source-side handles report closed; all histories of append/unsubscribe/is_closed/retain on MultiSubscription(Threads) with probe subscriptions: appended after unsubscribe => torn down at once.",
  SX_TRUST, ["src/subscription.rs", "src/subscriber.rs", "src/scheduler.rs (TaskHandle)", "src/ops/ref_count.rs", "src/ops/finalize.rs"], "depth 1 (quick) / 2 (thorough); 4 events; composite histories <= 5", OUT_COMMON, [])
C["C18"] = mk("sx", "other", "differential bounded symbolic execution: the same decision trail into the local and the thread-safe form, logs compared by z3",
  "Bounded: the same symbolic script/timeline is fed to the local and to the _threads / Threads form in one run; z3 decides equality of the two probe logs.",
  SX_TRUST, ["src/ops/{merge,zip,combine_latest,with_latest_from,take_until,skip_until,sample,finalize,box_it,merge_all,delay,observe_on,ref_count}.rs", "src/subject.rs", "src/subscriber.rs"], "timelines of 5 (quick) / 6 (thorough) events; unary chains depth 1/2", OUT_COMMON, [])

json.dump(C, open(os.path.join(ROOT, "checks.json"), "w"), indent=1)
print("checks.json:", len(C), "properties")
