#!/bin/bash
# run every seeded mutation against its property's quick check (and extra properties given in meta 'also')
cd /verif
for d in seeded/*/; do
  id=$(basename $d)
  [ -n "${ONLY:-}" ] && [[ "$id" != $ONLY* ]] && continue
  prop=$(python3 -c "import json;print(json.load(open('$d/meta.json'))['property'])")
  echo "#### $id: $(python3 -c "import json;print(json.load(open('$d/meta.json'))['summary'][:150])")"
  tools/mutcheck.sh /verif/${d%/}/patch.diff $prop 2>&1 | grep -E "^==|VIOLATION|PATCH|harness=" | head -5
done
