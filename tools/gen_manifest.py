#!/usr/bin/env python3
"""Regenerates MANIFEST.json from checks.json (claimed properties) and properties.jsonl."""
import json, os
ROOT = os.path.dirname(os.path.dirname(os.path.abspath(__file__)))
cfg = json.load(open(os.path.join(ROOT, "checks.json")))
props = [json.loads(l) for l in open(os.path.join(ROOT, "properties.jsonl"))]
checks = []
na = []
for p in props:
    c = cfg.get(p["id"])
    if not c or c.get("not_applicable"):
        na.append(dict(property_id=p["id"], reason=(c or {}).get("not_applicable", "no check built yet")))
        continue
    checks.append(dict(
        property_id=p["id"],
        quick_cmd=f"./check {p['id']} --tier quick",
        thorough_cmd=f"./check {p['id']} --tier thorough",
        evidence_file=f"/verif/evidence/{p['id']}.json",
        replay_cmd_template="./check replay {path}",
        engine=c["engine"],
        level_claimed=dict(category=c["level"], text=c["level_text"], design_ref=c.get("design_ref", "DESIGN.md §6")),
        level_note=c["level_note"],
        technique=c["technique"],
    ))
m = dict(
    version=1,
    setup_cmd="./setup.sh",
    hooks=dict(
        guard="cargo feature verif_hooks",
        enable="path dependency on /repo with features = [\"verif_hooks\"] (engine S adds futures-scheduler, no timer; engine K default-features = false)",
        baseline_off_cmd="cd /repo && cargo test --workspace --no-fail-fast --offline",
        source_commits=json.load(open(os.path.join(ROOT, "hooks.json")))["source_commits"],
        add_only=True,
    ),
    engines=[
        dict(name="sx", path="/verif/sx", serves_properties=[p["id"] for p in props if cfg.get(p["id"]) and "sx" in cfg[p["id"]].get("engine", "")], kind_free_text="KLEE-class forking symbolic executor: the natively compiled real rxRust is instantiated with a symbolic item type; z3 (one process per worker, push/pop) decides every branch on symbolic data and every property query; counterexamples are replayed concretely in a fresh process"),
        dict(name="kani", path="/verif/kani", serves_properties=[p["id"] for p in props if cfg.get(p["id"]) and "kani" in cfg[p["id"]].get("engine", "")], kind_free_text="Kani 0.68 / CBMC 6.11 bounded model checking of the real operator/observer/subscription code driven directly; one SAT query decides all scripts within the unwind bound"),
    ],
    checks=checks,
    not_applicable=na,
    notes="All checks are `./check <ID> --tier quick|thorough`; exit 2 = inconclusive (time-out, solver disagreement, non-reproducing counterexample) and is never reported as success.",
)
json.dump(m, open(os.path.join(ROOT, "MANIFEST.json"), "w"), indent=1)
print("claimed", len(checks), "not_applicable", len(na))
