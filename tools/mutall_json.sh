#!/bin/bash
# runs every seeded mutation against its property's quick check and writes seeded/DETECTION.json
VERIF=$(cd "$(dirname "$0")/.." && pwd)
cd $VERIF
out=seeded/DETECTION.json
echo "{" > $out.tmp
first=1
for d in seeded/*/; do
  id=$(basename $d)
  [ -f $d/meta.json ] || continue
  prop=$(python3 -c "import json;print(json.load(open('$d/meta.json'))['property'])")
  res=$(tools/mutcheck.sh $VERIF/${d%/}/patch.diff $prop 2>&1)
  rc=$(echo "$res" | grep -oE "exit=[0-9]+" | head -1 | cut -d= -f2)
  hs=$(echo "$res" | grep -E "harness=" | sed 's/^ *//' | head -4 | python3 -c "import sys,json;print(json.dumps([l.strip() for l in sys.stdin]))")
  [ $first = 1 ] || echo "," >> $out.tmp
  first=0
  echo "\"$id\": {\"property\": \"$prop\", \"quick_check_exit\": ${rc:-null}, \"caught_by\": $hs}" >> $out.tmp
done
echo "}" >> $out.tmp
python3 -c "import json;d=json.load(open('$out.tmp'));json.dump(d,open('$out','w'),indent=1);print(sum(1 for v in d.values() if v['quick_check_exit']==1),'of',len(d),'detected')"
rm -f $out.tmp
