//! C14: to_future, to_stream, complete_status / wait_for_end.
use crate::cat;
use crate::engine as e;
use crate::harness::*;
use crate::model::{self, Script, Tm};
use crate::val::Val;
use crate::world::{self, Ev};
use futures::Stream;
use rxrust::ops::complete_status::verif_status_future;
use rxrust::ops::future::ObservableError;
use rxrust::prelude::*;
use std::future::Future;
use std::pin::Pin;
use std::sync::atomic::{AtomicUsize, Ordering};
use std::sync::Arc;
use std::task::{Context, Poll, Wake, Waker};

/// On the sibling-carrying Subject source: an earlier conversion of the same Subject whose future the waiting side
/// has already dropped (the loser of a select): its observer stays registered with the Subject.
fn dropped_sibling(sk: u32) {
  if sk == 2 {
    if let Some(s) = cat::subject_of(0) {
      drop(Box::pin(s.to_future()));
    }
  }
}

fn src_name(sk: u32) -> &'static str {
  match sk {
    0 => "a create handle",
    2 => "a Subject with sibling subscribers",
    _ => "a Subject relaying another Subject (upstream.actual_subscribe(relay))",
  }
}

struct CountWaker(AtomicUsize);
impl Wake for CountWaker {
  fn wake(self: Arc<Self>) {
    self.0.fetch_add(1, Ordering::SeqCst);
  }
  fn wake_by_ref(self: &Arc<Self>) {
    self.0.fetch_add(1, Ordering::SeqCst);
  }
}

/// to_future: events delivered before, between and after polls
fn c14_to_future(max_items: u32) {
  let script = draw_script(max_items, true);
  // source: a parked create handle, or a Subject on which this conversion is one subscriber among several
  let sk = [0, 2, 3][e::choose(3) as usize];
  e::note(format!("to_future over {} ; input [{}]", src_name(sk), script.show()));
  let cw = Arc::new(CountWaker(AtomicUsize::new(0)));
  let waker = Waker::from(cw.clone());
  let mut cx = Context::from_waker(&waker);
  let src = cat::hot_kind(0, sk);
  dropped_sibling(sk);
  let mut fut = Box::pin(src.to_future());
  cat::add_late_sibling(0);
  let mut result: Option<Result<Result<Val, Val>, ObservableError>> = None;
  let mut last_pending_wakes: Option<usize> = None; // wake count when the last poll returned Pending
  let mut poll_now = |fut: &mut Pin<Box<rxrust::ops::future::ObservableFuture<Val, Val>>>, result: &mut Option<_>, lp: &mut Option<usize>| {
    if result.is_none() {
      match fut.as_mut().poll(&mut cx) {
        Poll::Ready(r) => {
          e::note("poll -> Ready".to_string());
          *result = Some(r);
          *lp = None;
        }
        Poll::Pending => {
          e::note("poll -> Pending".to_string());
          *lp = Some(cw.0.load(Ordering::SeqCst));
        }
      }
    }
  };
  for ev in script.events() {
    if e::choose_bool() {
      poll_now(&mut fut, &mut result, &mut last_pending_wakes);
    }
    e::note(world::show_ev(&ev));
    cat::feed_hot(0, &ev);
  }
  let terminated = !matches!(script.term, Tm::None);
  if terminated && result.is_none() {
    // a real waiter is only polled again after a wake-up
    if let Some(wk) = last_pending_wakes {
      if cw.0.load(Ordering::SeqCst) == wk {
        e::fail("to_future/lost-wakeup", || "the source terminated after a poll returned Pending, and no wake-up was delivered: the waiter sleeps forever".to_string());
      }
    }
    poll_now(&mut fut, &mut result, &mut last_pending_wakes);
    if result.is_none() {
      e::fail(&format!("to_future/pending-after-{}", if matches!(script.term, Tm::Complete) { "complete" } else { "error" }), || format!("source [{}] has terminated but the future stays Pending", script.show()));
    }
  }
  if let Some(r) = &result {
    if !terminated {
      e::fail("to_future/ready-before-terminal", || "resolved although the source has not terminated".to_string());
    }
    let n = script.items.len();
    let key = "to_future/result";
    match (&script.term, n, r) {
      (Tm::Complete, 0, Err(ObservableError::Empty)) => {}
      (Tm::Complete, 1, Ok(Ok(v))) => e::check(v.eq_t(&script.items[0]), key, || "wrong item".to_string()),
      (Tm::Complete, k, Err(ObservableError::MultipleValues)) if k >= 2 => {}
      (Tm::Error(x), 0, Ok(Err(g))) => e::check(g.eq_t(x), key, || "wrong error".to_string()),
      // items then an error: the error or MultipleValues (not documented: both accepted)
      (Tm::Error(x), _, Ok(Err(g))) => e::check(g.eq_t(x), key, || "wrong error".to_string()),
      (Tm::Error(_), k, Err(ObservableError::MultipleValues)) if k >= 1 => {}
      _ => e::fail(key, || format!("source [{}] resolved to {:?}", script.show(), r.as_ref().map(|x| x.as_ref().map(|v| v.show()).map_err(|v| v.show())))),
    }
  }
  e::cover("c14-to_future-path-complete");
}

fn c14_to_stream(max_items: u32) {
  let script = draw_script(max_items, true);
  let sk = [0, 2, 3][e::choose(3) as usize];
  e::note(format!("to_stream over {} ; input [{}]", src_name(sk), script.show()));
  let cw = Arc::new(CountWaker(AtomicUsize::new(0)));
  let waker = Waker::from(cw.clone());
  let mut cx = Context::from_waker(&waker);
  let src = cat::hot_kind(0, sk);
  dropped_sibling(sk);
  let mut st = Box::pin(src.to_stream());
  cat::add_late_sibling(0);
  let mut got: Vec<Ev> = vec![];
  let mut ended = false;
  let mut last_pending_wakes: Option<usize> = None;
  macro_rules! poll_all {
    () => {{
      // poll until Pending or end (bounded)
      for _ in 0..8 {
        if ended {
          break;
        }
        match st.as_mut().poll_next(&mut cx) {
          Poll::Ready(Some(Ok(v))) => {
            got.push(Ev::Next(v));
            last_pending_wakes = None;
          }
          Poll::Ready(Some(Err(x))) => {
            got.push(Ev::Err(x));
            last_pending_wakes = None;
          }
          Poll::Ready(None) => {
            ended = true;
            last_pending_wakes = None;
          }
          Poll::Pending => {
            last_pending_wakes = Some(cw.0.load(Ordering::SeqCst));
            break;
          }
        }
      }
    }};
  }
  for ev in script.events() {
    if e::choose_bool() {
      poll_all!();
    }
    e::note(world::show_ev(&ev));
    cat::feed_hot(0, &ev);
  }
  let terminated = !matches!(script.term, Tm::None);
  if terminated && !ended {
    if let Some(wk) = last_pending_wakes {
      if cw.0.load(Ordering::SeqCst) == wk {
        e::fail("to_stream/lost-wakeup", || "the source terminated after poll_next returned Pending, and no wake-up was delivered".to_string());
      }
    }
  }
  poll_all!();
  if terminated && !ended {
    e::fail(&format!("to_stream/pending-after-{}", if matches!(script.term, Tm::Complete) { "complete" } else { "error" }), || format!("source [{}] has terminated but the stream does not end; yielded [{}]", script.show(), model::show_events(&got)));
  }
  if !terminated && ended {
    e::fail("to_stream/ended-before-terminal", || "stream ended although the source has not terminated".to_string());
  }
  // yielded items (and the error) in order
  let mut want = script.events();
  if matches!(script.term, Tm::Complete) {
    want.pop();
  }
  match model::compare_events(&got, &want) {
    Ok(t) => e::check(t, "to_stream/sequence", || format!("yielded [{}] expected [{}]", model::show_events(&got), model::show_events(&want))),
    Err(why) => e::fail("to_stream/sequence", || format!("{} ; yielded [{}] expected [{}]", why, model::show_events(&got), model::show_events(&want))),
  }
  e::cover("c14-to_stream-path-complete");
}

// ---- to_stream with a waiting side that reacts at once: the waker polls the stream from inside wake(), i.e. while
// the producer is still inside the call that sent the message (a second thread woken by the first of two sends)
type BoxedStream = Pin<Box<dyn Stream<Item = Result<Val, Val>>>>;
thread_local! {
  static EAGER_STREAM: std::cell::RefCell<Option<BoxedStream>> = std::cell::RefCell::new(None);
  static EAGER_GOT: std::cell::RefCell<Vec<Ev>> = std::cell::RefCell::new(vec![]);
  static EAGER_ENDED: std::cell::Cell<bool> = std::cell::Cell::new(false);
  static EAGER_PENDING: std::cell::Cell<bool> = std::cell::Cell::new(false);
}
struct EagerWaker;
impl Wake for EagerWaker {
  fn wake(self: Arc<Self>) {
    eager_poll(self)
  }
  fn wake_by_ref(self: &Arc<Self>) {
    eager_poll(self.clone())
  }
}
fn eager_poll(w: Arc<EagerWaker>) {
  if std::thread::panicking() {
    return;
  }
  // a poll that is already running on this stack simply goes on (the wake-up came from inside it)
  let st = EAGER_STREAM.with(|s| s.try_borrow_mut().ok().and_then(|mut s| s.take()));
  let mut st = match st {
    Some(s) => s,
    None => return,
  };
  let waker = Waker::from(w);
  let mut cx = Context::from_waker(&waker);
  for _ in 0..8 {
    if EAGER_ENDED.with(|e| e.get()) {
      break;
    }
    match st.as_mut().poll_next(&mut cx) {
      Poll::Ready(Some(Ok(v))) => EAGER_GOT.with(|g| g.borrow_mut().push(Ev::Next(v))),
      Poll::Ready(Some(Err(x))) => EAGER_GOT.with(|g| g.borrow_mut().push(Ev::Err(x))),
      Poll::Ready(None) => EAGER_ENDED.with(|e| e.set(true)),
      Poll::Pending => {
        EAGER_PENDING.with(|p| p.set(true));
        break;
      }
    }
  }
  EAGER_STREAM.with(|s| *s.borrow_mut() = Some(st));
}

fn c14_to_stream_eager(max_items: u32) {
  let script = draw_script(max_items, true);
  let sk = [0, 2, 3][e::choose(3) as usize];
  e::note(format!("to_stream over {} ; the waiting side polls from inside every wake-up ; input [{}]", src_name(sk), script.show()));
  EAGER_GOT.with(|g| g.borrow_mut().clear());
  EAGER_ENDED.with(|x| x.set(false));
  let src = cat::hot_kind(0, sk);
  let st: BoxedStream = Box::pin(src.to_stream());
  EAGER_STREAM.with(|s| *s.borrow_mut() = Some(st));
  cat::add_late_sibling(0);
  let w = Arc::new(EagerWaker);
  // the first poll registers the waker
  eager_poll(w.clone());
  for ev in script.events() {
    e::note(world::show_ev(&ev));
    cat::feed_hot(0, &ev);
  }
  let terminated = !matches!(script.term, Tm::None);
  let ended = EAGER_ENDED.with(|x| x.get());
  let got = EAGER_GOT.with(|g| g.borrow().clone());
  // drop the stream inside the run
  let st = EAGER_STREAM.with(|s| s.borrow_mut().take());
  drop(st);
  if terminated && !ended {
    e::fail(&format!("to_stream/eager/never-ends-after-{}", if matches!(script.term, Tm::Complete) { "complete" } else { "error" }), || format!("every wake-up was answered by a poll at once, the source [{}] has terminated, yet the stream has not ended; yielded [{}]", script.show(), model::show_events(&got)));
  }
  if !terminated && ended {
    e::fail("to_stream/eager/ended-before-terminal", || "stream ended although the source has not terminated".to_string());
  }
  let mut want = script.events();
  if matches!(script.term, Tm::Complete) {
    want.pop();
  }
  match model::compare_events(&got, &want) {
    Ok(t) => e::check(t, "to_stream/eager/sequence", || format!("yielded [{}] expected [{}]", model::show_events(&got), model::show_events(&want))),
    Err(why) => e::fail("to_stream/eager/sequence", || format!("{} ; yielded [{}] expected [{}]", why, model::show_events(&got), model::show_events(&want))),
  }
  e::cover("c14-to_stream-eager-path-complete");
}

/// complete_status: flags reflect the terminal exactly; the wait future becomes ready;
/// producer's terminal interleaved at the hooked yield points of the waiter's poll.
fn c14_complete_status(max_items: u32, threads_form: bool) {
  let script = draw_script(max_items, true);
  let sk = [0, 2, 3][e::choose(3) as usize];
  // an operator that emits on completion above the status stage, one that finishes early below it
  let pre_collect = e::choose_bool();
  let post_take = e::choose_bool();
  e::note(format!("{}complete_status{}{} over {} ; input [{}]", if pre_collect { "collect()." } else { "" }, if post_take { ".take(1)" } else { "" }, if threads_form { " (threads source)" } else { "" }, src_name(sk), script.show()));
  let probe = fresh_probe();
  let status;
  if threads_form {
    let src = cat::hot_kind_t(0, sk);
    let src: cat::ObsT = if pre_collect { src.collect::<Vec<Val>>().map(|v: Vec<Val>| Val::L(v)).box_it() } else { src };
    let (o, st) = src.complete_status();
    if post_take {
      std::mem::forget(o.take(1).actual_subscribe(probe));
    } else {
      std::mem::forget(o.actual_subscribe(probe));
    }
    status = st;
  } else {
    let src = cat::hot_kind(0, sk);
    let src: cat::Obs = if pre_collect { src.collect::<Vec<Val>>().map(|v: Vec<Val>| Val::L(v)).box_it() } else { src };
    let (o, st) = src.complete_status();
    if post_take {
      std::mem::forget(o.take(1).actual_subscribe(probe));
    } else {
      std::mem::forget(o.actual_subscribe(probe));
    }
    status = st;
  }
  cat::add_late_sibling(0);
  let cw = Arc::new(CountWaker(AtomicUsize::new(0)));
  let waker = Waker::from(cw.clone());
  let mut cx = Context::from_waker(&waker);
  let mut fut: Pin<Box<dyn Future<Output = rxrust::scheduler::NormalReturn<()>>>> = Box::pin(verif_status_future(status.clone()));
  let evs = script.events();
  let n = evs.len();
  // where the waiter polls: before event i (0..=n), and whether the event that follows runs
  // *inside* the poll at the hooked yield point (the producer thread racing the waiter)
  let poll_at = e::choose(n as u32 + 2) as usize; // n+1 = never polls before the end
  let race = poll_at < n && e::choose_bool();
  // alternatively the waiter thread polls while the producer is inside the subscriber's terminal
  // handler (the terminal is being delivered downstream, the flag is not stored yet)
  let poll_in_handler = !race && terminated_script(&script) && e::choose_bool();
  type StatusFut = Pin<Box<dyn Future<Output = rxrust::scheduler::NormalReturn<()>>>>;
  let fut_cell: std::rc::Rc<std::cell::RefCell<Option<StatusFut>>> = Default::default();
  let handler_result: std::rc::Rc<std::cell::Cell<u8>> = Default::default(); // 0 not polled, 1 pending, 2 ready
  let mut ready = false;
  let mut last_pending_wakes: Option<usize> = None;
  let mut i = 0;
  world::yield_enable();
  if poll_in_handler {
    // hand the future to the handler hook; it is taken back afterwards
    *fut_cell.borrow_mut() = Some(std::mem::replace(&mut fut, Box::pin(std::future::pending())));
    let (fc, hr, cw2) = (fut_cell.clone(), handler_result.clone(), cw.clone());
    world::w(|w| {
      w.on_probe_event = Some(Box::new(move |ev: &Ev| {
        if !matches!(ev, Ev::Next(_)) && hr.get() == 0 {
          let waker = Waker::from(cw2.clone());
          let mut cx = Context::from_waker(&waker);
          if let Some(f) = fc.borrow_mut().as_mut() {
            e::note("  [waiter thread polls while the terminal is being delivered]".to_string());
            match f.as_mut().poll(&mut cx) {
              Poll::Ready(_) => hr.set(2),
              Poll::Pending => hr.set(1),
            }
          }
        }
      }))
    });
  }
  while i <= n {
    if i == poll_at {
      if race {
        // the next source event is delivered by the producer thread while the waiter sits at the yield point
        let ev = evs[i].clone();
        let fired = std::rc::Rc::new(std::cell::Cell::new(false));
        let f2 = fired.clone();
        world::w(|w| {
          w.yield_handler = Some(Box::new(move |id: usize| {
            if id == 1 && !f2.get() {
              f2.set(true);
              e::note(format!("  [producer thread, at waiter's yield point] {}", world::show_ev(&ev)));
              if threads_form {
                cat::feed_hot_t(0, &ev);
              } else {
                cat::feed_hot(0, &ev);
              }
            }
          }))
        });
        let r = fut.as_mut().poll(&mut cx);
        world::w(|w| w.yield_handler = None);
        match r {
          Poll::Ready(_) => {
            e::note("poll -> Ready".to_string());
            ready = true;
          }
          Poll::Pending => {
            e::note("poll -> Pending".to_string());
            last_pending_wakes = Some(cw.0.load(Ordering::SeqCst));
          }
        }
        if fired.get() {
          i += 1; // that event has been delivered
          continue_after(&mut i);
          continue;
        }
      } else {
        match fut.as_mut().poll(&mut cx) {
          Poll::Ready(_) => {
            e::note("poll -> Ready".to_string());
            ready = true;
          }
          Poll::Pending => {
            e::note("poll -> Pending".to_string());
            last_pending_wakes = Some(cw.0.load(Ordering::SeqCst));
          }
        }
      }
    }
    if i < n {
      e::note(world::show_ev(&evs[i]));
      if threads_form {
        cat::feed_hot_t(0, &evs[i]);
      } else {
        cat::feed_hot(0, &evs[i]);
      }
    }
    i += 1;
  }
  fn continue_after(_i: &mut usize) {}
  if poll_in_handler {
    world::w(|w| w.on_probe_event = None);
    if let Some(f) = fut_cell.borrow_mut().take() {
      fut = f;
    }
    match handler_result.get() {
      2 => ready = true,
      1 => {
        // it returned Pending before the flag was stored: a wake-up must have followed
        last_pending_wakes = Some(0);
      }
      _ => {}
    }
  }
  let terminated = !matches!(script.term, Tm::None);
  // flags
  let (closed, completed, errored) = (status.is_closed(), status.is_completed(), status.error_occur());
  let want = match script.term {
    Tm::None => (false, false, false),
    Tm::Complete => (true, true, false),
    Tm::Error(_) => (true, false, true),
  };
  if (closed, completed, errored) != want {
    // the configuration is part of the key: the same symptom in another composition is another finding
    let key = format!("complete_status/flags/{}{}{}", ["handle", "", "subject", "subject"][sk as usize], if pre_collect { ".collect" } else { "" }, if post_take { ".take" } else { "" });
    e::fail(&key, || format!("source [{}]: is_closed={} is_completed={} error_occur={}", script.show(), closed, completed, errored));
  }
  if ready && !terminated {
    e::fail("complete_status/ready-before-terminal", || "the wait future resolved although the source has not terminated".to_string());
  }
  if terminated && !ready {
    if let Some(wk) = last_pending_wakes {
      if cw.0.load(Ordering::SeqCst) == wk {
        e::fail("complete_status/lost-wakeup", || "the source terminated while the waiter was between its flag check and its waker registration; no wake-up followed, so wait_for_end would block forever".to_string());
      }
    }
    match fut.as_mut().poll(&mut cx) {
      Poll::Ready(_) => {}
      Poll::Pending => e::fail("complete_status/pending-after-terminal", || "source terminated but the wait future stays Pending".to_string()),
    }
  }
  // the pipeline itself is transparent
  let got = probe.events();
  let mut through = script.clone();
  if pre_collect {
    through = match &script.term {
      Tm::Complete => Script { items: vec![Val::L(script.items.clone())], term: Tm::Complete },
      Tm::Error(x) => Script { items: vec![], term: Tm::Error(x.clone()) },
      Tm::None => Script { items: vec![], term: Tm::None },
    };
  }
  if post_take && !through.items.is_empty() {
    through = Script { items: vec![through.items[0].clone()], term: Tm::Complete };
  }
  let script_seen = through;
  match model::compare(&got, &script_seen) {
    Ok(t) => e::check(t, "complete_status/pass-through", || format!("got [{}]", model::show_events(&got))),
    Err(why) => e::fail("complete_status/pass-through", || format!("{} ; got [{}]", why, model::show_events(&got))),
  }
  world::hooks_disable();
  e::cover("c14-status-path-complete");
}

fn terminated_script(s: &Script) -> bool {
  !matches!(s.term, Tm::None)
}

pub fn harnesses() -> Vec<HarnessDef> {
  let mut v = vec![];
  let mut add = |id: &'static str, props: Vec<&'static str>, about: &'static str, bounds: fn(bool) -> String, f: Box<dyn Fn(bool) + Send + Sync>| {
    v.push(HarnessDef { id, props, about, bounds, f, budget_quick: 2_000_000, budget_thorough: 20_000_000, thorough_only: false, sampled: false });
  };
  // (the thread-safe source with the producer's event interleaved at the waiter's yield points is also C10's "no lost wake-up")
  fn b(t: bool) -> String {
    format!("scripts of 0..{} symbolic items then complete / error / neither; a poll optionally before every event and after the last", if t { 4 } else { 3 })
  }
  add("c14_to_future", vec!["C14"], "to_future: resolves as documented (Empty / item / MultipleValues / error), becomes ready once the source has terminated, no lost wake-up", b, Box::new(|t| c14_to_future(if t { 4 } else { 3 })));
  add("c14_to_stream", vec!["C14"], "to_stream: yields every item and the error in order, then ends; no lost wake-up", b, Box::new(|t| c14_to_stream(if t { 4 } else { 3 })));
  add("c14_to_stream_eager", vec!["C14"], "to_stream whose waiting side polls from inside every wake-up (while the producer is still inside the call that sent the message): the error and the end still arrive, nothing panics", b, Box::new(|t| c14_to_stream_eager(if t { 4 } else { 3 })));
  add("c14_complete_status", vec!["C14"], "complete_status flags and the wait_for_end future; the producer's event interleaved at the waiter's hooked yield point (between flag check and waker registration)", b, Box::new(|t| c14_complete_status(if t { 4 } else { 3 }, false)));
  add("c14_complete_status_threads", vec!["C14", "C10"], "same over a thread-safe source", b, Box::new(|t| c14_complete_status(if t { 4 } else { 3 }, true)));
  v
}
