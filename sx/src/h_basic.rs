//! C01 (grammar), C02 (silent after unsubscribe; non-scheduler operators),
//! C03 (documented sequence), C13 (lazy/independent), C15 (finalize once),
//! C16 (is_finished forwarding), C17 (is_closed soundness) over operator chains
//! composed at run time from the catalogue.
use crate::cat::{self, Obs, Op2, OPS2};
use crate::engine as e;
use crate::harness::*;
use crate::model::{self, Op, Script, Tm, C03_OPS, P, PASS_OPS};
use crate::val::Val;
use crate::world::{self, Ev, Probe};
use rxrust::prelude::*;

fn pick_op(ops: &[Op]) -> Op {
  ops[e::choose(ops.len() as u32) as usize]
}

// ------------------------------------------------------------------ C03

/// C03: chain of `depth` catalogue operators over cold / hot sources.
fn c03_chain(depth: usize, max_len: u32) {
  let mut chain: Vec<(Op, P)> = vec![];
  // the catalogue's operators plus the pass-through stages (boxed, finalize, relay through a Subject)
  let ops = all_unary_ops();
  for i in 0..depth {
    let op = pick_op(&ops);
    let p = draw_params(op, max_len + 1, 10 + i);
    chain.push((op, p));
  }
  let script = draw_script(max_len, true);
  e::note(format!("chain {} ; input [{}]", chain.iter().map(|(o, p)| show_p(*o, p)).collect::<Vec<_>>().join(" -> "), script.show()));
  // source kinds: cold create(), from_iter (completing scripts only: it consults is_finished),
  // hot create() handle, hot Subject (consults is_finished / is_closed of its subscribers)
  let src_kind = e::choose(4);
  let probe = fresh_probe();
  match src_kind {
    0 => {
      let o = build_chain(cat::cold(script.items.clone(), script.term.clone(), 0), &chain);
      let _u = subscribe(o, probe);
    }
    1 => {
      if !matches!(script.term, Tm::Complete) {
        e::prune();
      }
      let src: Obs = observable::from_iter(script.items.clone()).on_error_map(|_: std::convert::Infallible| Val::c(0)).box_it();
      let _u = subscribe(build_chain(src, &chain), probe);
    }
    k => {
      let o = build_chain(cat::hot_kind(0, k - 2), &chain);
      let _u = subscribe(o, probe);
      for ev in script.events() {
        cat::feed_hot(0, &ev);
      }
    }
  }
  let got = probe.events();
  verify_against(&got, &chain, &script, &chain_key("seq-mismatch", &chain));
  if depth == 1 && chain[0].0 == Op::Tap {
    let c = world::counter(10);
    if c != script.items.len() as i64 {
      e::fail("tap/call-count", || format!("tap ran {} times for {} items", c, script.items.len()));
    }
  }
  e::cover("c03-chain-path-complete");
}

/// C03: the basic sources, each against its documented sequence.
fn c03_sources() {
  use rxrust::observable as ob;
  let probe = fresh_probe();
  let v = Val::var();
  let which = e::choose(12);
  let (name, want): (&str, Script) = match which {
    0 => {
      ob::of(v.clone()).actual_subscribe(probe);
      ("of", Script { items: vec![v.clone()], term: Tm::Complete })
    }
    1 => {
      let some = e::choose_bool();
      ob::of_option(if some { Some(v.clone()) } else { None }).actual_subscribe(probe);
      ("of_option", Script { items: if some { vec![v.clone()] } else { vec![] }, term: Tm::Complete })
    }
    2 => {
      let ok = e::choose_bool();
      let r: Result<Val, Val> = if ok { Ok(v.clone()) } else { Err(v.clone()) };
      ob::of_result(r).actual_subscribe(probe);
      ("of_result", if ok { Script { items: vec![v.clone()], term: Tm::Complete } } else { Script { items: vec![], term: Tm::Error(v.clone()) } })
    }
    3 => {
      let vv = v.clone();
      ob::of_fn(move || {
        world::bump(0);
        vv
      })
      .actual_subscribe(probe);
      if world::counter(0) != 1 {
        e::fail("source/of_fn/call-count", || format!("closure ran {} times", world::counter(0)));
      }
      ("of_fn", Script { items: vec![v.clone()], term: Tm::Complete })
    }
    4 => {
      let vv = v.clone();
      ob::start(move || {
        world::bump(0);
        vv
      })
      .actual_subscribe(probe);
      if world::counter(0) != 1 {
        e::fail("source/start/call-count", || format!("closure ran {} times", world::counter(0)));
      }
      ("start", Script { items: vec![v.clone()], term: Tm::Complete })
    }
    5 => {
      let n = e::choose(5) as usize;
      let items: Vec<Val> = (0..n).map(|_| Val::var()).collect();
      ob::from_iter(items.clone()).actual_subscribe(probe);
      ("from_iter", Script { items, term: Tm::Complete })
    }
    6 => {
      let n = e::choose(5) as usize;
      ob::repeat(v.clone(), n).actual_subscribe(probe);
      ("repeat", Script { items: vec![v.clone(); n], term: Tm::Complete })
    }
    7 => {
      ob::empty().actual_subscribe(ProbeOf::<Val>(probe, std::marker::PhantomData));
      ("empty", Script { items: vec![], term: Tm::Complete })
    }
    8 => {
      ob::never().actual_subscribe(probe);
      ("never", Script { items: vec![], term: Tm::None })
    }
    9 => {
      ob::throw(v.clone()).actual_subscribe(probe);
      ("throw", Script { items: vec![], term: Tm::Error(v.clone()) })
    }
    10 => {
      // create: whatever the closure sends, cut at its first terminal
      let k = 4;
      let evs: Vec<Ev> = (0..k)
        .map(|_| match e::choose(3) {
          0 => Ev::Next(Val::var()),
          1 => Ev::Complete,
          _ => Ev::Err(Val::var()),
        })
        .collect();
      let evs2 = evs.clone();
      let src = ob::create::<_, Val, Val, _>(move |mut s: Subscriber<Probe>| {
        for ev in evs2 {
          match ev {
            Ev::Next(v) => Observer::<Val, Val>::next(&mut s, v),
            Ev::Complete => Observer::<Val, Val>::complete(s.clone()),
            Ev::Err(x) => Observer::<Val, Val>::error(s.clone(), x),
          }
        }
      });
      Observable::<Val, Val, Probe>::actual_subscribe(src, probe);
      ("create", Script::from_events(&evs))
    }
    _ => {
      // defer: supplier runs at subscription, once
      let vv = v.clone();
      let d = ob::defer(move || {
        world::bump(0);
        ob::of(vv)
      });
      if world::counter(0) != 0 {
        e::fail("source/defer/eager", || "supplier ran before subscription".to_string());
      }
      d.actual_subscribe(probe);
      if world::counter(0) != 1 {
        e::fail("source/defer/call-count", || format!("supplier ran {} times", world::counter(0)));
      }
      ("defer", Script { items: vec![v.clone()], term: Tm::Complete })
    }
  };
  e::note(format!("source {}", name));
  let got = probe.events();
  let key = format!("source/{}/sequence", name);
  match model::compare(&got, &want) {
    Ok(t) => e::check(t, &key, || format!("got [{}] expected [{}]", model::show_events(&got), want.show())),
    Err(why) => e::fail(&key, || format!("{} ; got [{}] expected [{}]", why, model::show_events(&got), want.show())),
  }
}

/// adapter fixing the item type for sources that are generic in it
struct ProbeOf<T>(Probe, std::marker::PhantomData<T>);
impl<T: crate::val::IntoVal, E: crate::val::IntoVal> Observer<T, E> for ProbeOf<T> {
  fn next(&mut self, v: T) {
    Observer::<T, E>::next(&mut self.0, v)
  }
  fn error(self, e: E) {
    Observer::<T, E>::error(self.0, e)
  }
  fn complete(self) {
    Observer::<T, E>::complete(self.0)
  }
  fn is_finished(&self) -> bool {
    Observer::<T, E>::is_finished(&self.0)
  }
}

// ------------------------------------------------------------------ hot chains with arbitrary event sequences

#[derive(Clone, Debug)]
enum Stage {
  U(Op, P),
  /// two-input operator; `chain_is_main`: the chain so far is the main input, a fresh hot source (tag) the other
  B(Op2, bool, usize),
}

fn show_stage(s: &Stage) -> String {
  match s {
    Stage::U(o, p) => show_p(*o, p),
    Stage::B(o, main, tag) => format!("{:?}({} hot#{})", o, if *main { "with" } else { "as notifier of" }, tag),
  }
}

fn stage_names(st: &[Stage]) -> String {
  st.iter()
    .map(|s| match s {
      Stage::U(o, _) => op_name(*o),
      Stage::B(o, m, _) => format!("{:?}{}", o, if *m { "" } else { "'" }),
    })
    .collect::<Vec<_>>()
    .join(".")
}

fn build_stages(mut o: Obs, st: &[Stage], kinds: &[u32]) -> Obs {
  for s in st {
    o = match s {
      Stage::U(op, p) => cat::build(*op, o, p),
      Stage::B(op, true, tag) => cat::build2(*op, o, cat::hot_kind(*tag, kinds[*tag])),
      Stage::B(op, false, tag) => cat::build2(*op, cat::hot_kind(*tag, kinds[*tag]), o),
    };
  }
  o
}

#[derive(Clone, Copy, PartialEq)]
enum Mode {
  Grammar,   // C01
  Unsub,     // C02
  IsClosed,  // C17
  Finished,  // C16 forwarding obligation
}

fn all_unary_ops() -> Vec<Op> {
  let mut v = C03_OPS.to_vec();
  v.extend_from_slice(PASS_OPS);
  v
}

/// A chain of `depth` stages over hot inputs; `k` arbitrary events (any kind, any
/// input, also after terminals, terminals through cloned handles).
fn hot_chain(mode: Mode, depth: usize, k: usize, binary: bool) {
  hot_chain_x(mode, depth, k, binary, false)
}

/// `last_binary`: the last stage is always a two-input operator (a third party can end the stream)
fn hot_chain_x(mode: Mode, depth: usize, k: usize, binary: bool, last_binary: bool) {
  // a Subject used as observer (publish + connect) is a multicast boundary: it reports finished when *it* has
  // terminated, not when its present subscribers have, so the forwarding obligation of C16 ends there
  let unary: Vec<Op> = all_unary_ops().into_iter().filter(|o| !(mode == Mode::Finished && *o == Op::Relay)).collect();
  let mut stages: Vec<Stage> = vec![];
  let mut tags: Vec<usize> = vec![0];
  for i in 0..depth {
    let nb = if binary { OPS2.len() * 2 } else { 0 };
    let c = if last_binary && i + 1 == depth { unary.len() + e::choose(nb as u32) as usize } else { e::choose((unary.len() + nb) as u32) as usize };
    if c < unary.len() {
      let op = unary[c];
      stages.push(Stage::U(op, draw_params(op, k as u32, 10 + i)));
    } else {
      let j = c - unary.len();
      let tag = i + 1;
      tags.push(tag);
      stages.push(Stage::B(OPS2[j / 2], j % 2 == 0, tag));
    }
  }
  e::note(format!("chain {}", stages.iter().map(show_stage).collect::<Vec<_>>().join(" -> ")));
  let probe = fresh_probe();
  // every hot input is either a parked `create` subscriber handle or a Subject
  let kinds: Vec<u32> = (0..=depth).map(|_| e::choose(2)).collect();
  e::note(format!("hot input kinds {:?} (0 = create handle, 1 = Subject)", kinds));
  let o = build_stages(cat::hot_kind(0, kinds[0]), &stages, &kinds);
  let mut unsub: Option<BoxSubscription<'static>> = Some(subscribe(o, probe));
  let names = stage_names(&stages);
  let cut = if mode == Mode::Unsub { e::choose(k as u32 + 1) as usize } else { usize::MAX };
  let by_guard = if mode == Mode::Unsub { e::choose(3) } else { 0 };
  let mut evs0: Vec<Ev> = vec![];
  let mut closed_seen = false;
  for step in 0..=k {
    if step == cut {
      if let Some(u) = unsub.take() {
        release(u, by_guard);
        probe.silence();
        e::note("unsubscribe()".to_string());
        for t in &tags {
          if cat::hot_is_closed(*t) == Some(false) {
            e::fail(&format!("handle-open-after-unsubscribe/{}", names), || format!("source-side handle of hot#{} reports open after unsubscribe()", t));
          }
        }
      }
    }
    if step == k {
      break;
    }
    let t = tags[e::choose(tags.len() as u32) as usize];
    let ev = match e::choose(3) {
      0 => Ev::Next(Val::var()),
      1 => Ev::Complete,
      _ => Ev::Err(Val::var()),
    };
    e::note(format!("hot#{}.{}", t, world::show_ev(&ev)));
    if t == 0 {
      evs0.push(ev.clone());
    }
    cat::feed_hot(t, &ev);
    if mode == Mode::IsClosed {
      if let Some(u) = unsub.as_ref() {
        let c = u.is_closed();
        if closed_seen && !c {
          e::fail(&format!("is_closed-went-back-to-false/{}", names), || "is_closed() returned true and later false".to_string());
        }
        if c {
          closed_seen = true;
          probe.forbid("delivery-after-is_closed");
        }
      }
    }
    if mode == Mode::Finished && probe.terminated() {
      // the subscriber is done: every producer feeding it must be able to see that
      for t in &tags {
        if cat::hot_is_finished(*t) == Some(false) {
          e::fail(&format!("is_finished-not-forwarded/{}/hot#{}", names, t), || format!("downstream terminated but the producer handle hot#{} sees is_finished() == false", t));
        }
      }
    }
  }
  // oracle where the chain is purely single-input
  if mode == Mode::Grammar && stages.iter().all(|s| matches!(s, Stage::U(..))) {
    let chain: Vec<(Op, P)> = stages
      .iter()
      .map(|s| match s {
        Stage::U(o, p) => (*o, p.clone()),
        _ => unreachable!(),
      })
      .collect();
    let script = Script::from_events(&evs0);
    verify_against(&probe.events(), &chain, &script, &format!("seq-mismatch/{}", names));
  }
  e::cover("hot-chain-path-complete");
  if probe.terminated() {
    e::cover("probe-saw-terminal");
  }
}

// ------------------------------------------------------------------ C13

struct NestObserver {
  outer: Probe,
  inner: Option<(Obs, Probe)>,
}
impl Observer<Val, Val> for NestObserver {
  fn next(&mut self, v: Val) {
    if let Some((o, p)) = self.inner.take() {
      // a nested subscription of a clone, made from inside the first one's callback
      let _ = o.actual_subscribe(p);
    }
    Observer::<Val, Val>::next(&mut self.outer, v)
  }
  fn error(self, e: Val) {
    Observer::<Val, Val>::error(self.outer, e)
  }
  fn complete(self) {
    Observer::<Val, Val>::complete(self.outer)
  }
  fn is_finished(&self) -> bool {
    Observer::<Val, Val>::is_finished(&self.outer)
  }
}

fn c13_chain(depth: usize, max_len: u32) {
  let mut chain: Vec<(Op, P)> = vec![];
  let unary = all_unary_ops();
  for i in 0..depth {
    let op = pick_op(&unary);
    chain.push((op, draw_params(op, max_len + 1, 10 + i)));
  }
  let script = draw_script(max_len, false);
  e::note(format!("chain {} ; input [{}]", chain.iter().map(|(o, p)| show_p(*o, p)).collect::<Vec<_>>().join(" -> "), script.show()));
  let names = chain_key("", &chain);
  let o = build_chain(cat::cold(script.items.clone(), script.term.clone(), 0), &chain);
  if world::counter(0) != 0 {
    e::fail(&format!("eager-source{}", names), || "the source ran while the pipeline was being built".to_string());
  }
  for i in 0..depth {
    if world::counter(10 + i) != 0 {
      e::fail(&format!("eager-closure{}", names), || "an operator closure ran while the pipeline was being built".to_string());
    }
  }
  let nested = e::choose_bool();
  let (pa, pb, pc) = (fresh_probe(), fresh_probe(), fresh_probe());
  let a = o.clone();
  let b = o.clone();
  if nested {
    let _ = a.actual_subscribe(NestObserver { outer: pa, inner: Some((b, pb)) });
  } else {
    let _ = a.actual_subscribe(pa);
    let _ = b.actual_subscribe(pb);
  }
  let _ = o.actual_subscribe(pc);
  let want_subs = if nested && sem_chain(&chain, &script, false).items.is_empty() && pb.len() == 0 { 2 } else { 3 };
  for (i, p) in [pa, pb, pc].iter().enumerate() {
    if nested && i == 1 && want_subs == 2 {
      continue; // the nested subscription was never made (first one delivered no item)
    }
    verify_against(&p.events(), &chain, &script, &format!("subscription-{}-differs{}", i, names));
  }
  let c = world::counter(0);
  if c != want_subs {
    e::fail(&format!("source-run-count{}", names), || format!("source ran {} times for {} subscriptions", c, want_subs));
  }
  // every subscription owns its finalizer: each of them saw a terminal, so each ran it once
  for (i, (op, _)) in chain.iter().enumerate() {
    if *op == Op::Finalize {
      let n = world::counter(10 + i);
      if n != want_subs {
        e::fail(&format!("finalizer-run-count{}", names), || format!("{} subscriptions terminated but the finalizer ran {} time(s)", want_subs, n));
      }
    }
  }
  e::cover("c13-path-complete");
}

// ------------------------------------------------------------------ C15

/// Two subscriptions of clones of one finalize pipeline, each over an input of its own: each of them runs the
/// callback once, at its own first terminal / unsubscribe, whatever the other one did before.
pub(crate) fn c15_clones(threads_form: bool) {
  let counts = [fresh_probe(), fresh_probe()]; // one event per finalizer run, per subscription
  let order = e::choose(2) as usize; // which subscription is ended first
  let how = [e::choose(3), e::choose(3)]; // 0 complete, 1 error, 2 unsubscribe
  thread_local! {
    static WHICH: std::cell::Cell<usize> = std::cell::Cell::new(0);
  }
  e::note(format!("finalize{} cloned, two subscriptions ; s{} ends first by {} ; then s{} by {}", if threads_form { "_threads" } else { "" }, order, ["complete", "error", "unsubscribe"][how[0] as usize], 1 - order, ["complete", "error", "unsubscribe"][how[1] as usize]));
  // one operator value; the finalizer reports through whichever subscription index is current when it runs
  let fin = move || {
    let i = WHICH.with(|w| w.get());
    let mut p = counts[i];
    Observer::<Val, Val>::next(&mut p, Val::c(1));
  };
  let (pa, pb) = (fresh_probe(), fresh_probe());
  let mut unsubs: Vec<Option<Box<dyn FnOnce()>>> = vec![None, None];
  let mut closed_q: Vec<Option<Box<dyn Fn() -> bool>>> = vec![None, None];
  macro_rules! keep2 {
    ($i:expr, $u:expr) => {{
      let cell = std::rc::Rc::new(std::cell::RefCell::new(Some($u)));
      let c2 = cell.clone();
      closed_q[$i] = Some(Box::new(move || c2.borrow().as_ref().map_or(true, |u| u.is_closed())));
      unsubs[$i] = Some(Box::new(move || {
        let u = cell.borrow_mut().take();
        if let Some(u) = u {
          u.unsubscribe()
        }
      }));
    }};
  }
  if threads_form {
    let o = observable::defer(|| cat::hot_tagged_t(0)).finalize_threads(fin);
    keep2!(0, o.clone().actual_subscribe(pa));
    keep2!(1, o.clone().actual_subscribe(pb));
  } else {
    let o = observable::defer(|| cat::hot_tagged(0)).finalize(fin);
    keep2!(0, o.clone().actual_subscribe(pa));
    keep2!(1, o.clone().actual_subscribe(pb));
  }
  for (step, i) in [order, 1 - order].iter().enumerate() {
    WHICH.with(|w| w.set(*i));
    match how[step] {
      0 | 1 => {
        let ev = if how[step] == 0 { Ev::Complete } else { Ev::Err(Val::var()) };
        if threads_form {
          if let Some(h) = cat::handle_t_nth(0, *i) {
            let mut h = h;
            feed_t(&mut h, &ev);
          }
        } else if let Some(h) = cat::handle_nth(0, *i) {
          let mut h = h;
          feed(&mut h, &ev);
        }
      }
      _ => {
        if let Some(u) = unsubs[*i].take() {
          u()
        }
      }
    }
    let runs = [counts[0].len(), counts[1].len()];
    let want = if step == 0 { if *i == 0 { [1, 0] } else { [0, 1] } } else { [1, 1] };
    if runs != want {
      e::fail("finalize/clones/run-count", || format!("after ending subscription s{} the finalizer runs per subscription are {:?}, expected {:?}", i, runs, want));
    }
    if step == 0 {
      // C17 on the subscription that is still live: if its handle says closed, nothing may arrive through it
      let other = 1 - *i;
      if let Some(q) = &closed_q[other] {
        if q() {
          e::note(format!("s{}.is_closed() -> true", other));
          [pa, pb][other].forbid("finalize/clones/delivery-after-is_closed");
        }
      }
      WHICH.with(|w| w.set(other));
      let ev = Ev::Next(Val::var());
      if threads_form {
        if let Some(h) = cat::handle_t_nth(0, other) {
          let mut h = h;
          feed_t(&mut h, &ev);
        }
      } else if let Some(h) = cat::handle_nth(0, other) {
        let mut h = h;
        feed(&mut h, &ev);
      }
    }
  }
  e::cover("c15-clones-path-complete");
}

pub(crate) fn c15_finalize(k: usize, threads_form: bool) {
  // hot handle -> (optional operator) -> finalize -> probe; any item prefix, then any
  // order of complete / error / unsubscribe, each possibly repeated through clones
  let probe = fresh_probe();
  let pre = if e::choose_bool() { Some(pick_op(&[Op::Take, Op::Filter, Op::Skip, Op::TakeWhile])) } else { None };
  let post = if e::choose_bool() { Some(pick_op(&[Op::Take, Op::Map, Op::TakeWhile, Op::Contains])) } else { None };
  let pp = pre.map(|o| (o, draw_params(o, 2, 20)));
  let po = post.map(|o| (o, draw_params(o, 2, 21)));
  // every run of the finalizer is also an event on a probe of its own: the local-vs-threads comparison (C18)
  // only sees probe logs
  let fin_probe = fresh_probe();
  let fin_cb = move || {
    let mut fp = fin_probe;
    Observer::<Val, Val>::next(&mut fp, Val::c(777));
    let n = world::bump(1);
    // position of the call relative to the downstream terminal
    let term_seen = world::w(|w| w.probes[probe.id].terminated);
    world::set_counter(2, term_seen as i64);
    if n > 1 {
      e::fail("finalize/ran-twice", || "finalizer invoked a second time".to_string());
    }
    // the subscription is over when the finalizer runs: nothing may be delivered from now on,
    // not even an item the source emits from inside the callback (unsubscribe path only: on the
    // terminal paths the subscriber has already seen its terminal)
    probe.forbid("finalize/delivery-after-finalizer");
    if !term_seen {
      if threads_form {
        if let Some(mut h) = cat::handle_t_nth(0, 0) {
          h.next(Val::c(99));
        }
      } else if let Some(mut h) = cat::handle_nth(0, 0) {
        h.next(Val::c(99));
      }
    }
  };
  let mut unsub: Option<Box<dyn FnOnce()>>;
  let mut feeder: Box<dyn FnMut(&Ev)>;
  let by_guard = e::choose(3);
  // a source that never terminates and whose own subscription is the unit type (reports closed at once)
  let never_src = pre.is_none() && post.is_none() && e::choose(4) == 0;
  if never_src {
    e::note(format!("never().finalize{} ; released by {}", if threads_form { "_threads" } else { "" }, how_name(by_guard)));
    let src = observable::never().map(|_: ()| Val::c(0)).on_error_map(|_: std::convert::Infallible| Val::c(0));
    // the handle as returned, or type-erased in a BoxSubscription(Threads) as boxed pipelines return it
    let boxed = e::choose_bool();
    if boxed {
      e::note("  (handle boxed)".to_string());
    }
    if threads_form {
      let u = src.finalize_threads(fin_cb).actual_subscribe(probe);
      if world::counter(1) != 0 {
        e::fail("finalize/ran-early", || "finalizer ran at subscription".to_string());
      }
      if boxed {
        let u = BoxSubscriptionThreads::new(u);
        release(u, by_guard);
      } else {
        release(u, by_guard);
      }
    } else {
      let u = src.finalize(fin_cb).actual_subscribe(probe);
      if world::counter(1) != 0 {
        e::fail("finalize/ran-early", || "finalizer ran at subscription".to_string());
      }
      if boxed {
        let u = BoxSubscription::new(u);
        release(u, by_guard);
      } else {
        release(u, by_guard);
      }
    }
    if world::counter(1) != 1 {
      e::fail("finalize/not-run-after-trigger", || format!("subscription over never() released: finalizer count {}", world::counter(1)));
    }
    e::cover("c15-path-complete");
    return;
  }
  // source: a parked create handle, or a Subject on which this pipeline is one subscriber among several
  let sk = e::choose(2) * 2;
  if !threads_form {
    let mut o = cat::hot_kind(0, sk);
    if let Some((op, p)) = &pp {
      o = cat::build(*op, o, p);
    }
    let o = o.finalize(fin_cb);
    let u = match &po {
      Some((op, p)) => {
        let oo: Obs = o.box_it();
        BoxSubscription::new(cat::build(*op, oo, p).actual_subscribe(probe))
      }
      None => BoxSubscription::new(o.actual_subscribe(probe)),
    };
    unsub = Some(Box::new(move || release(u, by_guard)));
    cat::add_late_sibling(0);
    feeder = Box::new(move |ev| {
      cat::feed_hot(0, ev);
    });
  } else {
    let mut o = cat::hot_kind_t(0, sk);
    if let Some((op, p)) = &pp {
      o = cat::build_t(*op, o, p);
    }
    let o = o.finalize_threads(fin_cb);
    let u = match &po {
      Some((op, p)) => {
        let oo: cat::ObsT = o.box_it();
        BoxSubscriptionThreads::new(cat::build_t(*op, oo, p).actual_subscribe(probe))
      }
      None => BoxSubscriptionThreads::new(o.actual_subscribe(probe)),
    };
    unsub = Some(Box::new(move || release(u, by_guard)));
    cat::add_late_sibling(0);
    feeder = Box::new(move |ev| {
      cat::feed_hot_t(0, ev);
    });
  }
  e::note(format!("finalize{} pre={:?} post={:?} over {}", if threads_form { "_threads" } else { "" }, pre, post, if sk == 0 { "a create handle" } else { "a Subject with sibling subscribers" }));
  let mut source_terminated = false;
  let mut triggered = false;
  let mut downstream_finished_first = false;
  for _ in 0..k {
    let c = e::choose(4);
    match c {
      0 => {
        let ev = Ev::Next(Val::var());
        e::note(world::show_ev(&ev));
        feeder(&ev);
      }
      1 | 2 => {
        let ev = if c == 1 { Ev::Complete } else { Ev::Err(Val::var()) };
        e::note(world::show_ev(&ev));
        if !triggered && probe.terminated() {
          downstream_finished_first = true;
        }
        feeder(&ev);
        if !source_terminated {
          source_terminated = true;
          triggered = true;
        }
      }
      _ => {
        if let Some(u) = unsub.take() {
          e::note("unsubscribe()".to_string());
          u();
          triggered = true;
        } else {
          e::prune();
        }
      }
    }
    let n = world::counter(1);
    if triggered && n != 1 {
      // the composition is part of the key: a Subject source skips subscribers that report finished
      let key = if sk == 2 && downstream_finished_first && n == 0 { "finalize/not-run-after-trigger/subject-source-after-downstream-finished" } else { "finalize/not-run-after-trigger" };
      e::fail(key, || format!("after the first complete/error/unsubscribe the finalizer count is {}", n));
    }
    if !triggered && n != 0 && !probe.terminated() {
      e::fail("finalize/ran-early", || "finalizer ran before any complete/error/unsubscribe".to_string());
    }
    if n == 1 && probe.terminated() && world::counter(2) == 0 && source_terminated {
      // finalizer ran before the downstream saw its terminal
      let unsub_first = unsub.is_none() && !world::w(|w| w.probes[probe.id].log.last().map_or(false, |r| !matches!(r.ev, Ev::Next(_))));
      if !unsub_first {
        e::fail("finalize/before-downstream-terminal", || "finalizer ran before the terminal notification reached the subscriber".to_string());
      }
    }
  }
  e::cover("c15-path-complete");
  if world::counter(1) == 1 {
    e::cover("finalizer-ran");
  }
}

// ------------------------------------------------------------------ C04 / C18: two-input combinators along a merged timeline

fn draw_timeline(k: usize) -> Vec<(usize, Ev)> {
  (0..k)
    .map(|_| {
      let side = e::choose(2) as usize;
      let ev = match e::choose(3) {
        0 => Ev::Next(Val::var()),
        1 => Ev::Complete,
        _ => Ev::Err(Val::var()),
      };
      (side, ev)
    })
    .collect()
}

fn show_timeline(tl: &[(usize, Ev)]) -> String {
  tl.iter().map(|(s, e)| format!("{}:{}", if *s == 0 { "a" } else { "b" }, world::show_ev(e))).collect::<Vec<_>>().join(" ")
}

fn run2_local(op: Op2, tl: &[(usize, Ev)]) -> Vec<Ev> {
  let probe = fresh_probe();
  let o = cat::build2(op, cat::hot_tagged(100), cat::hot_tagged(101));
  let _u = subscribe(o, probe);
  for (side, ev) in tl {
    if let Some(mut h) = cat::handle_nth(100 + side, 0) {
      feed(&mut h, ev);
    }
  }
  probe.events()
}

fn run2_threads(op: Op2, tl: &[(usize, Ev)]) -> Vec<Ev> {
  let probe = fresh_probe();
  let o = cat::build2_t(op, cat::hot_tagged_t(100), cat::hot_tagged_t(101));
  let _u = subscribe_t(o, probe);
  for (side, ev) in tl {
    if let Some(mut h) = cat::handle_t_nth(100 + side, 0) {
      feed_t(&mut h, ev);
    }
  }
  probe.events()
}

fn verify2(op: Op2, tl: &[(usize, Ev)], got: &[Ev], form: &str) {
  let key = format!("timeline-mismatch/{:?}{}", op, form);
  let want = model::sem2(op, tl, false);
  let r0 = model::compare_events(got, &want);
  if model::has_alt2(op) {
    if let Ok(t) = &r0 {
      if e::valid(*t) {
        return;
      }
    }
    let want1 = model::sem2(op, tl, true);
    if let Ok(t) = model::compare_events(got, &want1) {
      if e::valid(t) {
        return;
      }
    }
  }
  let detail = || format!("timeline [{}] ; got [{}] ; expected [{}]", show_timeline(tl), model::show_events(got), model::show_events(&want));
  match r0 {
    Ok(t) => e::check(t, &key, detail),
    Err(why) => e::fail(&key, || format!("{} ; {}", why, detail())),
  }
}

fn c04_timeline(k: usize, threads_form: bool) {
  let op = OPS2[e::choose(OPS2.len() as u32) as usize];
  let tl = draw_timeline(k);
  e::note(format!("{:?}{} [{}]", op, if threads_form { "_threads" } else { "" }, show_timeline(&tl)));
  let got = if threads_form { run2_threads(op, &tl) } else { run2_local(op, &tl) };
  verify2(op, &tl, &got, if threads_form { "_threads" } else { "" });
  e::cover("c04-path-complete");
}

/// C04 + C06: both inputs are Subjects, and the subscriber's first callback (whatever it is) subscribes a listener to
/// one of them from inside the delivery. The combinator's output must still follow the timeline oracle, and the
/// listener sees exactly the later events of that Subject.
fn c04_subject_inputs(k: usize, threads_form: bool) {
  use crate::h_subject::SubObs;
  let op = OPS2[e::choose(OPS2.len() as u32) as usize];
  let lside = e::choose(2) as usize;
  let tl = draw_timeline(k);
  e::note(format!("{:?}{} over two Subjects [{}] ; the first callback subscribes a listener to input {}", op, if threads_form { "_threads" } else { "" }, show_timeline(&tl), if lside == 0 { "a" } else { "b" }));
  let probe = fresh_probe();
  let listener = fresh_probe();
  world::set_counter(7, 0);
  // keep the subscriptions alive for the whole run
  let mut keep: Vec<Box<dyn std::any::Any>> = vec![];
  if threads_form {
    let o = cat::build2_t(op, cat::hot_kind_t(100, 1), cat::hot_kind_t(101, 1));
    let sj = cat::SUBJECTS_T.with(|h| h.borrow().iter().find(|(t, _)| *t == 100 + lside).map(|(_, s)| s.clone())).unwrap();
    let n = move || {
      world::set_counter(7, 1);
      std::mem::forget(sj.actual_subscribe(listener));
    };
    keep.push(Box::new(o.actual_subscribe(SubObs { probe, nested: Some(n) })));
  } else {
    let o = cat::build2(op, cat::hot_kind(100, 1), cat::hot_kind(101, 1));
    let sj = cat::SUBJECTS.with(|h| h.borrow().iter().find(|(t, _)| *t == 100 + lside).map(|(_, s)| s.clone())).unwrap();
    let n = move || {
      world::set_counter(7, 1);
      std::mem::forget(sj.actual_subscribe(listener));
    };
    keep.push(Box::new(o.actual_subscribe(SubObs { probe, nested: Some(n) })));
  }
  let mut want_l: Vec<Ev> = vec![];
  let mut side_done = [false, false];
  let mut joined = false;
  for (side, ev) in &tl {
    let delivered = if threads_form { cat::feed_hot_t(100 + side, ev) } else { cat::feed_hot(100 + side, ev) };
    if joined && *side == lside && !side_done[lside] {
      want_l.push(ev.clone());
    }
    if delivered && !matches!(ev, Ev::Next(_)) {
      side_done[*side] = true;
    }
    // joined during this event: does not see it, sees the later ones
    if !joined && world::counter(7) == 1 {
      joined = true;
    }
  }
  verify2(op, &tl, &probe.events(), if threads_form { "_threads/subject-inputs" } else { "/subject-inputs" });
  let got = listener.events();
  let key = format!("listener-log/{:?}{}", op, if threads_form { "_threads" } else { "" });
  let detail = || format!("timeline [{}] ; listener on input {} got [{}] expected [{}]", show_timeline(&tl), lside, model::show_events(&got), model::show_events(&want_l));
  match model::compare_events(&got, &want_l) {
    Ok(t) => e::check(t, &key, detail),
    Err(why) => e::fail(&key, || format!("{} ; {}", why, detail())),
  }
  std::mem::forget(keep);
  e::cover("c04-subject-inputs-path-complete");
}

/// C18: same script into the local and the thread-safe form, logs compared item by item.
fn c18_binary(k: usize) {
  let op = OPS2[e::choose(OPS2.len() as u32) as usize];
  let tl = draw_timeline(k);
  e::note(format!("{:?} local vs threads [{}]", op, show_timeline(&tl)));
  let a = run2_local(op, &tl);
  let b = run2_threads(op, &tl);
  let key = format!("local-vs-threads/{:?}", op);
  let detail = || format!("timeline [{}] ; local [{}] ; threads [{}]", show_timeline(&tl), model::show_events(&a), model::show_events(&b));
  match model::compare_events(&a, &b) {
    Ok(t) => e::check(t, &key, detail),
    Err(why) => e::fail(&key, || format!("{} ; {}", why, detail())),
  }
}

fn c18_chain(depth: usize, k: usize) {
  // unary chains: local catalogue vs thread-safe catalogue (boxed-threads, finalize_threads, SubscriberThreads)
  let unary = all_unary_ops();
  let mut chain: Vec<(Op, P)> = vec![];
  for i in 0..depth {
    let op = pick_op(&unary);
    chain.push((op, draw_params(op, k as u32, 10 + i)));
  }
  let evs: Vec<Ev> = (0..k)
    .map(|_| match e::choose(3) {
      0 => Ev::Next(Val::var()),
      1 => Ev::Complete,
      _ => Ev::Err(Val::var()),
    })
    .collect();
  e::note(format!("chain {} ; events [{}]", chain.iter().map(|(o, p)| show_p(*o, p)).collect::<Vec<_>>().join(" -> "), model::show_events(&evs)));
  let pa = fresh_probe();
  let _ua = subscribe(build_chain(cat::hot(), &chain), pa);
  let mut h = cat::handle(0);
  for ev in &evs {
    feed(&mut h, ev);
  }
  let pb = fresh_probe();
  let _ub = subscribe_t(build_chain_t(cat::hot_t(), &chain), pb);
  let mut ht = cat::handle_t(0);
  for ev in &evs {
    feed_t(&mut ht, ev);
  }
  let (a, b) = (pa.events(), pb.events());
  let key = chain_key("local-vs-threads", &chain);
  let detail = || format!("local [{}] ; threads [{}]", model::show_events(&a), model::show_events(&b));
  match model::compare_events(&a, &b) {
    Ok(t) => e::check(t, &key, detail),
    Err(why) => e::fail(&key, || format!("{} ; {}", why, detail())),
  }
}

pub fn harnesses() -> Vec<HarnessDef> {
  let mut v = vec![];
  let mut add = |id: &'static str, props: Vec<&'static str>, about: &'static str, bounds: fn(bool) -> String, f: Box<dyn Fn(bool) + Send + Sync>, bq: u64, bt: u64, sampled: bool| {
    v.push(HarnessDef { id, props, about, bounds, f, budget_quick: bq, budget_thorough: bt, thorough_only: false, sampled });
  };
  add("c03_chain_d1", vec!["C03"], "every catalogue operator alone, symbolic items/thresholds, all scripts, cold and hot source, vs list oracle",
    |t| format!("depth 1; scripts of <= {} symbolic items x 3 terminals; counts 0..={}; 3 predicate kinds", if t { 4 } else { 3 }, if t { 5 } else { 4 }),
    Box::new(|t| c03_chain(1, if t { 4 } else { 3 })), 400_000, 4_000_000, false);
  add("c03_chain_d2", vec!["C03"], "every ordered pair of catalogue operators",
    |t| format!("depth 2; scripts of <= {} symbolic items x 3 terminals", if t { 3 } else { 2 }),
    Box::new(|t| c03_chain(2, if t { 3 } else { 2 })), 400_000, 30_000_000, true);
  add("c03_chain_d3", vec!["C03"], "triples of catalogue operators (seeded frontier sample)",
    |t| format!("depth 3; scripts of <= 2 symbolic items; sampled under a budget of {} paths", if t { 6_000_000 } else { 150_000 }),
    Box::new(|_| c03_chain(3, 2)), 150_000, 6_000_000, true);
  add("c03_sources", vec!["C03", "C13"], "of, of_option, of_result, of_fn, start, from_iter, repeat, empty, never, throw, create, defer vs documented sequence and call counts",
    |_| "all 12 sources; from_iter/repeat lengths 0..=4; create: all scripts of 4 events".to_string(),
    Box::new(|_| c03_sources()), 100_000, 100_000, false);
  add("c01_chain_d1", vec!["C01"], "one catalogue stage (unary or two-input with a second hot input), arbitrary events incl. post-terminal and repeated terminals through cloned handles; grammar monitor + list oracle for unary chains",
    |t| format!("depth 1; {} arbitrary events over all hot inputs", if t { 5 } else { 4 }),
    Box::new(|t| hot_chain(Mode::Grammar, 1, if t { 5 } else { 4 }, true)), 400_000, 6_000_000, false);
  add("c01_chain_d2", vec!["C01"], "two catalogue stages, arbitrary events on every hot input",
    |t| format!("depth 2; {} arbitrary events; {}", if t { 4 } else { 3 }, if t { "exhaustive" } else { "seeded frontier sample" }),
    Box::new(|t| hot_chain(Mode::Grammar, 2, if t { 4 } else { 3 }, true)), 400_000, 40_000_000, true);
  add("c15_clones", vec!["C15", "C13", "C17"], "finalize / finalize_threads cloned and subscribed twice over inputs of their own: each subscription runs the callback once, at its own end", |_| "2 subscriptions; each ended by complete / error / unsubscribe, in either order; both forms".to_string(), Box::new(|_| { c15_clones(e::choose_bool()) }), 10_000, 10_000, false);
  add("c02_chain", vec!["C02"], "non-scheduler chains: unsubscribe() / guard drop at every position of an arbitrary event script; any later delivery is a violation; source-side handles must report closed",
    |t| format!("depth {}; {} events; cut at every position; unsubscribe() and SubscriptionGuard drop", if t { 2 } else { 1 }, if t { 4 } else { 4 }),
    Box::new(|t| hot_chain(Mode::Unsub, if t { 2 } else { 1 }, 4, true)), 600_000, 40_000_000, true);
  add("c17_chain", vec!["C17"], "is_closed() sampled after every step of an arbitrary event script: monotone, and no delivery after it returned true",
    |t| format!("depth {}; {} events", if t { 2 } else { 1 }, 4),
    Box::new(|t| hot_chain(Mode::IsClosed, if t { 2 } else { 1 }, 4, true)), 600_000, 40_000_000, true);
  add("c16_finished", vec!["C16"], "forwarding obligation: once the subscriber has terminated, every hot producer handle (main and notifier positions) sees is_finished() == true",
    |t| format!("depth {}; {} events", if t { 2 } else { 1 }, 4),
    Box::new(|t| hot_chain(Mode::Finished, if t { 2 } else { 1 }, 4, true)), 600_000, 40_000_000, true);
  add("c16_finished_d2", vec!["C16"], "forwarding obligation through two stages where the second is a two-input operator (a notifier or sibling input can end the stream before the first stage has seen an item)", |t| format!("depth 2 (any stage, then a two-input stage); {} events", if t { 4 } else { 3 }), Box::new(|t| hot_chain_x(Mode::Finished, 2, if t { 4 } else { 3 }, true, true)), 6_000_000, 40_000_000, true);
  add("c13_chain", vec!["C13"], "cold chains: nothing runs at build time; three subscriptions of clones (sequential and nested) each reproduce the oracle; source runs once per subscription",
    |t| format!("depth {}; scripts of <= {} items", if t { 2 } else { 1 }, if t { 3 } else { 3 }),
    Box::new(|t| c13_chain(if t { 2 } else { 1 }, 3)), 400_000, 20_000_000, true);
  add("c13_chain_d2", vec!["C13"], "cold chains of depth 2 (seeded frontier sample in the quick tier)",
    |_| "depth 2; scripts of <= 2 items".to_string(),
    Box::new(|_| c13_chain(2, 2)), 200_000, 20_000_000, true);
  add("c15_finalize", vec!["C15"], "finalize: any item prefix then any order of complete/error/unsubscribe (repeated through clones); counter 0 before, 1 right after the first trigger, never 2; not before the downstream terminal",
    |t| format!("{} steps; optional operator before and after finalize", if t { 6 } else { 5 }),
    Box::new(|t| c15_finalize(if t { 6 } else { 5 }, false)), 600_000, 10_000_000, false);
  add("c15_finalize_threads", vec!["C15"], "finalize_threads, same scripts (single logical thread)",
    |t| format!("{} steps", if t { 6 } else { 5 }),
    Box::new(|t| c15_finalize(if t { 6 } else { 5 }, true)), 600_000, 10_000_000, false);
  add("c04_timeline", vec!["C04"], "merge, zip, combine_latest, with_latest_from, take_until, skip_until, sample, buffer(notifier): every merged timeline of two hot inputs vs the timeline oracle",
    |t| format!("{} events (side x kind), symbolic values", if t { 6 } else { 5 }),
    Box::new(|t| c04_timeline(if t { 6 } else { 5 }, false)), 3_000_000, 40_000_000, false);
  add("c04_subject_inputs", vec!["C04", "C06"], "two-input combinators over two Subjects whose subscriber subscribes a listener to one input from inside its first callback: timeline oracle for the output, later-events oracle for the listener",
    |t| format!("timelines of {} events over 2 Subject inputs; listener on either input", if t { 6 } else { 5 }),
    Box::new(|t| c04_subject_inputs(if t { 6 } else { 5 }, false)), 3_000_000, 40_000_000, false);
  add("c04_subject_inputs_threads", vec!["C04", "C06"], "same for the _threads forms (a re-acquired MutArc lock = would block forever)",
    |t| format!("timelines of {} events over 2 Subject inputs; listener on either input", if t { 6 } else { 5 }),
    Box::new(|t| c04_subject_inputs(if t { 6 } else { 5 }, true)), 3_000_000, 40_000_000, false);
  add("c04_timeline_threads", vec!["C04"], "the _threads forms of the two-input combinators vs the same oracle",
    |t| format!("{} events", if t { 6 } else { 4 }),
    Box::new(|t| c04_timeline(if t { 6 } else { 4 }, true)), 3_000_000, 40_000_000, false);
  add("c18_binary", vec!["C18"], "two-input combinators: the same symbolic timeline into the local and the _threads form, logs compared",
    |t| format!("{} events", if t { 6 } else { 5 }),
    Box::new(|t| c18_binary(if t { 6 } else { 5 })), 3_000_000, 40_000_000, false);
  add("c18_chain", vec!["C18"], "unary chains through the local vs the thread-safe boxed/finalize/subscriber forms",
    |t| format!("depth {}; 4 arbitrary events", if t { 2 } else { 1 }),
    Box::new(|t| c18_chain(if t { 2 } else { 1 }, 4)), 600_000, 40_000_000, true);
  v
}

// ------------------------------------------------------------------ C17: composite subscriptions

#[derive(Clone, Copy)]
struct ChildSub {
  id: usize,
}
impl Subscription for ChildSub {
  fn unsubscribe(self) {
    world::set_counter(30 + self.id, 1);
  }
  fn is_closed(&self) -> bool {
    world::counter(30 + self.id) != 0
  }
}

/// a child whose teardown registers a follow-up child in the composite it belongs to (what a finalizer may do)
struct AppendingChild<C: Clone> {
  id: usize,
  late_id: usize,
  composite: C,
}
impl Subscription for AppendingChild<MultiSubscription<'static>> {
  fn unsubscribe(mut self) {
    world::set_counter(30 + self.id, 1);
    e::note(format!("  (child{}'s teardown appends child{} to the same composite)", self.id, self.late_id));
    self.composite.append(BoxSubscription::new(ChildSub { id: self.late_id }));
  }
  fn is_closed(&self) -> bool {
    world::counter(30 + self.id) != 0
  }
}
impl Subscription for AppendingChild<MultiSubscriptionThreads> {
  fn unsubscribe(mut self) {
    world::set_counter(30 + self.id, 1);
    e::note(format!("  (child{}'s teardown appends child{} to the same composite)", self.id, self.late_id));
    self.composite.append(BoxSubscriptionThreads::new(ChildSub { id: self.late_id }));
  }
  fn is_closed(&self) -> bool {
    world::counter(30 + self.id) != 0
  }
}

fn c17_composite(threads_form: bool, nops: usize) {
  let mut local = MultiSubscription::default();
  let mut shared = MultiSubscriptionThreads::default();
  let mut children = 0usize;
  let mut unsubscribed = false;
  let mut closed_seen = false;
  e::note(if threads_form { "MultiSubscriptionThreads".to_string() } else { "MultiSubscription".to_string() });
  'ops: for _ in 0..nops {
    match e::choose(6) {
      5 => {
        // a child whose own teardown appends one more child (ids 8, 9 are the late ones)
        if children >= 3 || unsubscribed {
          break 'ops;
        }
        let id = children;
        children += 1;
        e::note(format!("append child{} (its teardown appends child{})", id, 8));
        if threads_form {
          shared.append(BoxSubscriptionThreads::new(AppendingChild { id, late_id: 8, composite: shared.clone() }));
        } else {
          local.append(BoxSubscription::new(AppendingChild { id, late_id: 8, composite: local.clone() }));
        }
        world::set_counter(29, 1);
      }
      0 => {
        if children >= 3 {
          break 'ops;
        }
        let id = children;
        children += 1;
        e::note(format!("append child{}", id));
        if threads_form {
          shared.append(BoxSubscriptionThreads::new(ChildSub { id }));
        } else {
          local.append(BoxSubscription::new(ChildSub { id }));
        }
        if unsubscribed && world::counter(30 + id) == 0 {
          e::fail("composite/late-addition-left-running", || format!("child{} was appended after unsubscribe() and was not unsubscribed", id));
        }
      }
      1 => {
        e::note("unsubscribe() through a clone".to_string());
        if threads_form {
          shared.clone().unsubscribe();
        } else {
          local.clone().unsubscribe();
        }
        unsubscribed = true;
        for id in 0..children {
          if world::counter(30 + id) == 0 {
            e::fail("composite/child-not-unsubscribed", || format!("unsubscribe() left child{} running", id));
          }
        }
        // what a teardown appended meanwhile is a late addition: unsubscribed at once
        if world::counter(29) == 1 && world::counter(30 + 8) == 0 {
          e::fail("composite/late-addition-left-running", || "the child appended by another child's teardown (during unsubscribe()) was not unsubscribed".to_string());
        }
      }
      2 => {
        let c = if threads_form { shared.is_closed() } else { local.is_closed() };
        e::note(format!("is_closed() = {}", c));
        if closed_seen && !c && !unsubscribed {
          // before unsubscribe a composite may re-open when something is appended: allowed only
          // while nothing was ever reported closed *and* then delivered; the property forbids true -> false
          e::fail("composite/is_closed-went-back-to-false", || "is_closed() returned true and later false".to_string());
        }
        if unsubscribed && !c {
          e::fail("composite/open-after-unsubscribe", || "is_closed() == false on a handle after unsubscribe()".to_string());
        }
        if c {
          closed_seen = true;
          for id in 0..children {
            if world::counter(30 + id) == 0 {
              e::fail("composite/closed-with-live-child", || format!("is_closed() == true while child{} can still deliver", id));
            }
          }
        }
      }
      3 => {
        e::note("retain()".to_string());
        if threads_form {
          shared.retain();
        } else {
          local.retain();
        }
      }
      _ => {
        // a child finishes by itself
        if children == 0 {
          break 'ops;
        }
        let id = e::choose(children as u32) as usize;
        e::note(format!("child{} finishes", id));
        world::set_counter(30 + id, 1);
      }
    }
  }
  e::cover("c17-composite-path-complete");
}

/// C01 at the level of closure subscribers: `.on_complete(c).on_error(e).subscribe(n)`
fn c01_closures(k: usize) {
  let unary = all_unary_ops();
  let op = pick_op(&unary);
  let p = draw_params(op, k as u32, 10);
  let kind = e::choose(2);
  e::note(format!("{} -> on_complete -> on_error -> subscribe(closure) ; hot kind {}", show_p(op, &p), kind));
  let probe = fresh_probe(); // used as the log of the three closures
  let o = cat::build(op, cat::hot_kind(0, kind), &p);
  let (mut pn, pc, pe) = (probe, probe, probe);
  let _u = o
    .on_complete(move || Observer::<Val, Val>::complete(pc))
    .on_error(move |x: Val| Observer::<Val, Val>::error(pe, x))
    .subscribe(move |v: Val| Observer::<Val, Val>::next(&mut pn, v));
  let mut evs = vec![];
  for _ in 0..k {
    let ev = match e::choose(3) {
      0 => Ev::Next(Val::var()),
      1 => Ev::Complete,
      _ => Ev::Err(Val::var()),
    };
    e::note(world::show_ev(&ev));
    cat::feed_hot(0, &ev);
    evs.push(ev);
  }
  let chain = vec![(op, p)];
  verify_against(&probe.events(), &chain, &Script::from_events(&evs), &format!("closure-subscriber/{}", op_name(op)));
  e::cover("c01-closures-path-complete");
}

pub fn harnesses_c17() -> Vec<HarnessDef> {
  vec![
    HarnessDef { id: "c01_closures", props: vec!["C01"], about: "closure-level subscriber (on_complete + on_error + subscribe(next)) below every unary operator: next*, then at most one of the completion / error callbacks, then nothing; vs the list oracle", bounds: |t| format!("{} arbitrary events incl. post-terminal", if t { 5 } else { 4 }), f: Box::new(|t| c01_closures(if t { 5 } else { 4 })), budget_quick: 1_000_000, budget_thorough: 20_000_000, thorough_only: false, sampled: true },
    HarnessDef { id: "c17_composite", props: vec!["C17", "C15"], about: "MultiSubscription: histories of append / unsubscribe (through a clone) / is_closed / retain / child finishes: late additions torn down at once, closed => every child closed, closed is monotone once unsubscribed", bounds: |t| format!("{} operations, 3 children", if t { 7 } else { 5 }), f: Box::new(|t| c17_composite(false, if t { 7 } else { 5 })), budget_quick: 1_000_000, budget_thorough: 20_000_000, thorough_only: false, sampled: true },
    HarnessDef { id: "c17_composite_threads", props: vec!["C17", "C15"], about: "MultiSubscriptionThreads, same histories", bounds: |t| format!("{} operations, 3 children", if t { 7 } else { 5 }), f: Box::new(|t| c17_composite(true, if t { 7 } else { 5 })), budget_quick: 1_000_000, budget_thorough: 20_000_000, thorough_only: false, sampled: true },
  ]
}
