//! C03 (documented sequence), C01 (grammar), C13 (lazy/independent) over
//! run-time composed operator chains.
use crate::cat;
use crate::engine as e;
use crate::harness::*;
use crate::model::{self, Op, Tm, P, C03_OPS};
use crate::world;

fn pick_op(ops: &[Op]) -> Op {
  ops[e::choose(ops.len() as u32) as usize]
}

/// C03: chain of `depth` catalogue operators over cold / hot sources.
fn c03_chain(depth: usize, max_len: u32) {
  let mut chain: Vec<(Op, P)> = vec![];
  for i in 0..depth {
    let op = pick_op(C03_OPS);
    let p = draw_params(op, max_len + 1, 10 + i);
    chain.push((op, p));
  }
  let script = draw_script(max_len, true);
  e::note(format!("chain {} ; input [{}]", chain.iter().map(|(o, p)| show_p(*o, p)).collect::<Vec<_>>().join(" -> "), script.show()));
  let hot = e::choose_bool();
  let probe = fresh_probe();
  if hot {
    let o = build_chain(cat::hot(), &chain);
    let _u = subscribe(o, probe);
    let mut h = cat::handle(0);
    feed_script(&mut h, &script);
  } else {
    let o = build_chain(cat::cold(script.items.clone(), script.term.clone(), 0), &chain);
    let _u = subscribe(o, probe);
  }
  let got = probe.events();
  verify_against(&got, &chain, &script, &chain_key("seq-mismatch", &chain));
  if depth == 1 && chain[0].0 == Op::Tap {
    let c = world::counter(10);
    if c != script.items.len() as i64 {
      e::fail("tap/call-count", || format!("tap ran {} times for {} items", c, script.items.len()));
    }
  }
  e::cover("c03-chain-path-complete");
}

pub fn harnesses() -> Vec<HarnessDef> {
  let mut v = vec![];
  v.push(HarnessDef {
    id: "c03_chain_d1",
    props: vec!["C03"],
    about: "every catalogue operator alone, symbolic items/thresholds, all scripts, cold and hot source, vs list oracle",
    bounds: |t| format!("depth 1; scripts of <= {} symbolic items x 3 terminals; counts 0..={}; 3 predicate kinds", if t { 4 } else { 3 }, if t { 5 } else { 4 }),
    f: Box::new(|t| c03_chain(1, if t { 4 } else { 3 })),
    budget_quick: 400_000,
    budget_thorough: 4_000_000,
    thorough_only: false,
    sampled: false,
  });
  v.push(HarnessDef {
    id: "c03_chain_d2",
    props: vec!["C03"],
    about: "every ordered pair of catalogue operators",
    bounds: |t| format!("depth 2; scripts of <= {} symbolic items x 3 terminals; {}", if t { 3 } else { 2 }, if t { "exhaustive" } else { "seeded frontier sample under the path budget" }),
    f: Box::new(|t| c03_chain(2, if t { 3 } else { 2 })),
    budget_quick: 250_000,
    budget_thorough: 30_000_000,
    thorough_only: false,
    sampled: true,
  });
  v
}
