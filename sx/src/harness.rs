//! Harness vocabulary shared by the per-property harness modules.
use crate::cat::{self, Handle, HandleT, Obs, ObsT};
use crate::engine as e;
use crate::model::{self, Op, Script, Tm, P};
use crate::val::Val;
use crate::world::{self, Ev, Probe};
use rxrust::prelude::*;

pub struct HarnessDef {
  pub id: &'static str,
  pub props: Vec<&'static str>,
  pub about: &'static str,
  pub bounds: fn(bool) -> String,
  pub f: Box<dyn Fn(bool) + Send + Sync>,
  pub budget_quick: u64,
  pub budget_thorough: u64,
  pub thorough_only: bool,
  pub sampled: bool,
}

pub fn op_name(op: Op) -> String {
  format!("{:?}", op)
}

/// items are fresh symbolic integers; the terminal is a choice
pub fn draw_script(max_len: u32, allow_none: bool) -> Script {
  let len = e::choose(max_len + 1);
  let items: Vec<Val> = (0..len).map(|_| Val::var()).collect();
  let term = match e::choose(if allow_none { 3 } else { 2 }) {
    0 => Tm::Complete,
    1 => Tm::Error(Val::var()),
    _ => Tm::None,
  };
  Script { items, term }
}

pub fn uses_n(op: Op) -> bool {
  matches!(op, Op::Take | Op::Skip | Op::TakeLast | Op::SkipLast | Op::ElementAt | Op::BufferWithCount)
}
pub fn uses_pred(op: Op) -> bool {
  matches!(op, Op::Filter | Op::FilterMap | Op::TakeWhile | Op::TakeWhileInclusive | Op::SkipWhile | Op::All)
}
pub fn uses_th(op: Op) -> bool {
  uses_pred(op)
    || matches!(op, Op::Map | Op::MapTo | Op::FirstOr | Op::LastOr | Op::DefaultIfEmpty | Op::ScanInitial | Op::ReduceInitial | Op::Contains | Op::OnErrorMap | Op::CollectInto)
}

pub fn draw_params(op: Op, max_n: u32, ctr: usize) -> P {
  // counts 0..=max_n and the `usize::MAX` ("unbounded") idiom
  let n = if uses_n(op) {
    let c = e::choose(max_n + 2);
    if c == max_n + 1 { usize::MAX } else { c as usize }
  } else {
    0
  };
  let pk = if uses_pred(op) { e::choose(4) } else { 0 };
  let th = if uses_th(op) { Val::var() } else { Val::c(0) };
  let vs = if op == Op::StartWith { (0..e::choose(3)).map(|_| Val::var()).collect() } else { vec![] };
  P { n, th, pk, vs, ctr }
}

pub fn show_p(op: Op, p: &P) -> String {
  let mut s = op_name(op);
  if uses_n(op) {
    s.push_str(&format!("(n={})", p.n));
  }
  if uses_pred(op) {
    s.push_str(&format!("(pred{} th={})", p.pk, p.th.show()));
  } else if uses_th(op) {
    s.push_str(&format!("(th={})", p.th.show()));
  }
  if op == Op::StartWith {
    s.push_str(&format!("(vs={})", p.vs.len()));
  }
  s
}

pub fn feed(h: &mut Handle, ev: &Ev) {
  match ev {
    Ev::Next(v) => h.next(v.clone()),
    Ev::Err(x) => h.clone().error(x.clone()),
    Ev::Complete => h.clone().complete(),
  }
}
pub fn feed_t(h: &mut HandleT, ev: &Ev) {
  match ev {
    Ev::Next(v) => h.next(v.clone()),
    Ev::Err(x) => h.clone().error(x.clone()),
    Ev::Complete => h.clone().complete(),
  }
}

pub fn feed_script(h: &mut Handle, s: &Script) {
  for ev in s.events() {
    feed(h, &ev);
  }
}
pub fn feed_script_t(h: &mut HandleT, s: &Script) {
  for ev in s.events() {
    feed_t(h, &ev);
  }
}

/// expected output of a chain on an input script
pub fn sem_chain(chain: &[(Op, P)], input: &Script, alt: bool) -> Script {
  let mut s = input.clone();
  for (op, p) in chain {
    s = model::sem(*op, p, &s, alt);
  }
  s
}

/// Solver-decided comparison of a probe log with the oracle (either reading where two are allowed).
pub fn verify_against(got: &[Ev], chain: &[(Op, P)], input: &Script, key: &str) {
  let any_alt = chain.iter().any(|(o, p)| model::has_alt(*o, p));
  let want = sem_chain(chain, input, false);
  let r0 = model::compare(got, &want);
  if any_alt {
    let ok0 = match &r0 {
      Ok(t) => e::valid(*t),
      Err(_) => false,
    };
    if ok0 {
      return;
    }
    let want1 = sem_chain(chain, input, true);
    if let Ok(t) = model::compare(got, &want1) {
      if e::valid(t) {
        return;
      }
    }
  }
  let detail = || format!("input [{}] ; got [{}] ; expected [{}]", input.show(), model::show_events(got), want.show());
  match r0 {
    Ok(t) => e::check(t, key, detail),
    Err(why) => e::fail(key, || format!("{} ; {}", why, detail())),
  }
}

pub fn subscribe(o: Obs, p: Probe) -> BoxSubscription<'static> {
  o.actual_subscribe(p)
}
pub fn subscribe_t(o: ObsT, p: Probe) -> BoxSubscriptionThreads {
  o.actual_subscribe(p)
}

pub fn fresh_probe() -> Probe {
  world::new_probe()
}

pub fn chain_key(prefix: &str, chain: &[(Op, P)]) -> String {
  format!("{}/{}", prefix, chain.iter().map(|(o, _)| op_name(*o)).collect::<Vec<_>>().join("."))
}

pub fn build_chain(mut o: Obs, chain: &[(Op, P)]) -> Obs {
  for (op, p) in chain {
    o = cat::build(*op, o, p);
  }
  o
}
pub fn build_chain_t(mut o: ObsT, chain: &[(Op, P)]) -> ObsT {
  for (op, p) in chain {
    o = cat::build_t(*op, o, p);
  }
  o
}

/// payload of the harness's own unwinding (raised with resume_unwind: no panic hook, no message)
pub struct DeliberateUnwind;

/// End a subscription: 0 = `unsubscribe()`, 1 = its `SubscriptionGuard` goes out of scope, 2 = the guard is
/// dropped by a panic unwinding through the scope that owns it (the program catches the panic and goes on).
pub fn release<U: Subscription>(u: U, how: u32) {
  // SX_NO_UNWIND_DROP: the check's fallback after a process abort (a panic inside the drop, while unwinding)
  let how = if how == 2 && std::env::var_os("SX_NO_UNWIND_DROP").is_some() { 1 } else { how };
  match how {
    0 => u.unsubscribe(),
    1 => drop(u.unsubscribe_when_dropped()),
    _ => {
      let g = u.unsubscribe_when_dropped();
      let _ = std::panic::catch_unwind(std::panic::AssertUnwindSafe(move || {
        let _g = g;
        std::panic::resume_unwind(Box::new(DeliberateUnwind));
      }));
    }
  }
}
pub fn how_name(how: u32) -> &'static str {
  ["unsubscribe()", "guard drop", "guard dropped by an unwinding panic"][how as usize]
}
