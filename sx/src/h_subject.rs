//! C06 (subjects), C12 (BehaviorSubject), C11 (publish/share), C20 (group_by),
//! C05 (flattening).
use crate::cat::{self, Obs, ObsT};
use crate::engine as e;
use crate::harness::*;
use crate::model::{self, Tm};
use crate::val::{IntoVal, Val};
use crate::world::{self, Ev, Probe};
use rxrust::prelude::*;
use std::cell::RefCell;

// ------------------------------------------------------------------ subscriber observer that can subscribe another one from inside its callback

pub struct SubObs<N: FnOnce()> {
  pub(crate) probe: Probe,
  pub(crate) nested: Option<N>,
}
impl<T: IntoVal, E: IntoVal, N: FnOnce()> Observer<T, E> for SubObs<N> {
  fn next(&mut self, v: T) {
    if let Some(n) = self.nested.take() {
      n();
    }
    Observer::<T, E>::next(&mut self.probe, v)
  }
  // a nested action that has not run yet runs in the terminal callback (the resubscribe-on-terminal pattern)
  fn error(mut self, e: E) {
    if let Some(n) = self.nested.take() {
      n();
    }
    Observer::<T, E>::error(self.probe, e)
  }
  fn complete(mut self) {
    if let Some(n) = self.nested.take() {
      n();
    }
    Observer::<T, E>::complete(self.probe)
  }
  fn is_finished(&self) -> bool {
    Observer::<T, E>::is_finished(&self.probe)
  }
}

type Unsub = Box<dyn FnOnce()>;

pub(crate) trait SubjApi: Clone + 'static {
  fn name() -> &'static str;
  fn new() -> Self;
  fn sub(&self, p: Probe) -> Unsub;
  /// subscriber `p` which, on its first item, subscribes `j` to a clone of the subject
  fn sub_nesting(&self, p: Probe, j: Probe) -> Unsub;
  fn s_next(&mut self, v: Val);
  fn s_error(&self, x: Val);
  fn s_complete(&self);
  fn s_retain(&mut self);
  fn s_unsubscribe(&self);
  fn s_len(&self) -> usize;
  fn s_is_empty(&self) -> bool;
  fn s_is_finished(&self) -> bool;
  fn s_is_closed(&self) -> bool;
}

macro_rules! impl_subj_api {
  ($ty:ty, $name:expr, $item:ty, $err:ty, |$v:ident| $mkitem:expr, |$x:ident| $mkerr:expr) => {
    impl SubjApi for $ty {
      fn name() -> &'static str {
        $name
      }
      fn new() -> Self {
        <$ty>::default()
      }
      fn sub(&self, p: Probe) -> Unsub {
        let u = self.clone().actual_subscribe(SubObs::<fn()> { probe: p, nested: None });
        Box::new(move || u.unsubscribe())
      }
      fn sub_nesting(&self, p: Probe, j: Probe) -> Unsub {
        let me = self.clone();
        let n = move || {
          let _ = me.actual_subscribe(SubObs::<fn()> { probe: j, nested: None });
        };
        let u = self.clone().actual_subscribe(SubObs { probe: p, nested: Some(n) });
        Box::new(move || u.unsubscribe())
      }
      fn s_next(&mut self, v: Val) {
        #[allow(unused_mut)]
        let mut $v = v;
        Observer::<$item, $err>::next(self, $mkitem)
      }
      fn s_error(&self, x: Val) {
        #[allow(unused_mut)]
        let mut $x = x;
        Observer::<$item, $err>::error(self.clone(), $mkerr)
      }
      fn s_complete(&self) {
        Observer::<$item, $err>::complete(self.clone())
      }
      fn s_retain(&mut self) {
        self.retain()
      }
      fn s_unsubscribe(&self) {
        self.clone().unsubscribe()
      }
      fn s_len(&self) -> usize {
        self.len()
      }
      fn s_is_empty(&self) -> bool {
        self.is_empty()
      }
      fn s_is_finished(&self) -> bool {
        Observer::<$item, $err>::is_finished(self)
      }
      fn s_is_closed(&self) -> bool {
        self.is_closed()
      }
    }
  };
}

impl_subj_api!(Subject<'static, Val, Val>, "Subject", Val, Val, |v| v, |x| x);
impl_subj_api!(SubjectThreads<Val, Val>, "SubjectThreads", Val, Val, |v| v, |x| x);
impl_subj_api!(MutRefItemSubject<'static, Val, Val>, "MutRefItemSubject", &mut Val, Val, |v| &mut v, |x| x);
impl_subj_api!(MutRefErrSubject<'static, Val, Val>, "MutRefErrSubject", Val, &mut Val, |v| v, |x| &mut x);
impl_subj_api!(MutRefItemErrSubject<'static, Val, Val>, "MutRefItemErrSubject", &mut Val, &mut Val, |v| &mut v, |x| &mut x);

#[derive(Clone, Copy, PartialEq, Debug)]
enum SubSt {
  Unused,
  Active,
  /// will be subscribed by its host's next callback
  Armed(usize),
  Gone,
}

pub(crate) fn c06_history<S: SubjApi>(nops: usize) {
  let mut subj = S::new();
  let mut clone2 = subj.clone();
  const NS: usize = 3;
  let probes: Vec<Probe> = (0..NS).map(|_| fresh_probe()).collect();
  let mut st = [SubSt::Unused; NS];
  let mut unsubs: Vec<Option<Unsub>> = (0..NS).map(|_| None).collect();
  let mut want: Vec<Vec<Ev>> = vec![vec![]; NS];
  let mut done = false;
  let mut closed_seen = false;
  e::note(format!("{}", S::name()));
  'ops: for _ in 0..nops {
    let op = e::choose(8);
    match op {
      0 => {
        // subscribe the next unused subscriber
        let i = match st.iter().position(|s| *s == SubSt::Unused) {
          Some(i) => i,
          None => break 'ops,
        };
        e::note(format!("subscribe s{}", i));
        unsubs[i] = Some(subj.sub(probes[i]));
        st[i] = if done { SubSt::Gone } else { SubSt::Active };
      }
      1 => {
        // subscribe i, which on its first item subscribes j from inside the callback
        let un: Vec<usize> = (0..NS).filter(|i| st[*i] == SubSt::Unused).collect();
        if un.len() < 2 {
          break 'ops;
        }
        let (i, j) = (un[0], un[1]);
        e::note(format!("subscribe s{} (subscribes s{} from inside its first callback)", i, j));
        unsubs[i] = Some(subj.sub_nesting(probes[i], probes[j]));
        st[i] = if done { SubSt::Gone } else { SubSt::Active };
        st[j] = if done { SubSt::Gone } else { SubSt::Armed(i) };
      }
      2 => {
        let cands: Vec<usize> = (0..NS).filter(|i| unsubs[*i].is_some()).collect();
        if cands.is_empty() {
          break 'ops;
        }
        let i = cands[e::choose(cands.len() as u32) as usize];
        e::note(format!("unsubscribe s{}", i));
        (unsubs[i].take().unwrap())();
        probes[i].silence();
        // an armed dependant that was never triggered stays unsubscribed forever
        for j in 0..NS {
          if st[j] == SubSt::Armed(i) {
            st[j] = SubSt::Gone;
          }
        }
        st[i] = SubSt::Gone;
      }
      3 => {
        let v = Val::var();
        let via_clone = e::choose_bool();
        e::note(format!("next({}){}", v.show(), if via_clone { " via clone" } else { "" }));
        if via_clone {
          clone2.s_next(v.clone())
        } else {
          subj.s_next(v.clone())
        }
        if !done {
          let mut newly = vec![];
          for i in 0..NS {
            if st[i] == SubSt::Active {
              want[i].push(Ev::Next(v.clone()));
              for j in 0..NS {
                if st[j] == SubSt::Armed(i) {
                  newly.push(j);
                }
              }
            }
          }
          // joined during this emission: do not see the in-flight item, see all later ones
          for j in newly {
            st[j] = SubSt::Active;
          }
        }
      }
      4 | 5 => {
        let ev = if op == 4 { Ev::Err(Val::var()) } else { Ev::Complete };
        e::note(world::show_ev(&ev));
        match &ev {
          Ev::Err(x) => subj.s_error(x.clone()),
          _ => subj.s_complete(),
        }
        if !done {
          for i in 0..NS {
            if st[i] == SubSt::Active {
              want[i].push(ev.clone());
            }
            if st[i] != SubSt::Unused {
              st[i] = SubSt::Gone;
            }
          }
          done = true;
        }
      }
      6 => {
        e::note("retain".to_string());
        subj.s_retain();
      }
      _ => {
        e::note("unsubscribe subject".to_string());
        subj.s_unsubscribe();
        if !done {
          for i in 0..NS {
            if st[i] != SubSt::Unused {
              st[i] = SubSt::Gone;
            }
            probes[i].silence();
          }
          done = true;
        }
      }
    }
    // C17: is_closed() of the subject is monotone, and once it is true nothing is delivered
    {
      let c = subj.s_is_closed();
      if closed_seen && !c {
        e::fail(&format!("{}/is_closed-went-back-to-false", S::name()), || "the subject's is_closed() returned true and later false".to_string());
      }
      if c && !closed_seen {
        closed_seen = true;
        for p in &probes {
          p.forbid("delivery-after-subject-is_closed");
        }
      }
    }
    if done {
      if !subj.s_is_finished() || !clone2.s_is_finished() {
        e::fail(&format!("{}/not-finished-after-terminal", S::name()), || "is_finished() == false after a terminal / unsubscribe()".to_string());
      }
      if !subj.s_is_empty() || subj.s_len() != 0 {
        e::fail(&format!("{}/not-empty-after-terminal", S::name()), || format!("len() == {} / is_empty() == {} after a terminal / unsubscribe()", subj.s_len(), subj.s_is_empty()));
      }
      // the Subscription-side report of "finished" (anchors.observe_at lists is_closed next to is_finished)
      if !subj.s_is_closed() || !clone2.s_is_closed() {
        e::fail(&format!("{}/not-closed-after-terminal", S::name()), || "is_closed() == false after a terminal / unsubscribe() (is_finished() == true)".to_string());
      }
    }
  }
  for i in 0..NS {
    let got = probes[i].events();
    let key = format!("{}/subscriber-log", S::name());
    let detail = || format!("subscriber s{}: got [{}] expected [{}]", i, model::show_events(&got), model::show_events(&want[i]));
    match model::compare_events(&got, &want[i]) {
      Ok(t) => e::check(t, &key, detail),
      Err(why) => e::fail(&key, || format!("{} ; {}", why, detail())),
    }
  }
  e::cover("c06-path-complete");
}

// ------------------------------------------------------------------ C12

thread_local! {
  static PEEKED: RefCell<Option<Val>> = RefCell::new(None);
  /// what next_by's closure saw
  static PEEKED_F: RefCell<Option<Val>> = RefCell::new(None);
}

/// fires its nested action on the second item it receives (the first one is the
/// BehaviorSubject's initial value, delivered during subscription)
pub struct SecondObs<N: FnOnce()> {
  probe: Probe,
  calls: u32,
  nested: Option<N>,
}
impl<N: FnOnce()> Observer<Val, Val> for SecondObs<N> {
  fn next(&mut self, v: Val) {
    self.calls += 1;
    if self.calls == 2 {
      if let Some(n) = self.nested.take() {
        n();
      }
    }
    Observer::<Val, Val>::next(&mut self.probe, v)
  }
  fn error(self, e: Val) {
    Observer::<Val, Val>::error(self.probe, e)
  }
  fn complete(self) {
    Observer::<Val, Val>::complete(self.probe)
  }
  fn is_finished(&self) -> bool {
    Observer::<Val, Val>::is_finished(&self.probe)
  }
}

pub(crate) trait BehApi: Clone + 'static {
  fn name() -> &'static str;
  fn new(v: Val) -> Self;
  fn sub(&self, p: Probe) -> Unsub;
  /// subscriber `p` which, at the first item after its initial value, peeks (result stored
  /// for the harness) and subscribes `j` to a clone
  fn sub_nesting(&self, p: Probe, j: Probe) -> Unsub;
  /// the same, but from inside the very first callback: the replay of the current value at subscription
  fn sub_nesting_first(&self, p: Probe, j: Probe) -> Unsub;
  fn b_next(&mut self, v: Val);
  fn b_next_by_plus(&mut self, d: Val);
  /// next_by whose closure looks at the subject itself (peek on a clone) before computing f(current)
  fn b_next_by_peeking(&mut self, d: Val);
  fn b_peek(&self) -> Val;
  fn b_complete(&self);
  fn b_error(&self, x: Val);
}

macro_rules! impl_beh_api {
  ($ty:ty, $name:expr) => {
    impl BehApi for $ty {
      fn name() -> &'static str {
        $name
      }
      fn new(v: Val) -> Self {
        <$ty>::new(v)
      }
      fn sub(&self, p: Probe) -> Unsub {
        let u = self.clone().actual_subscribe(p);
        Box::new(move || u.unsubscribe())
      }
      fn sub_nesting(&self, p: Probe, j: Probe) -> Unsub {
        let me = self.clone();
        let n = move || {
          let seen = Behavior::<Val, Val>::peek(&me);
          PEEKED.with(|x| *x.borrow_mut() = Some(seen));
          let _ = me.actual_subscribe(j);
        };
        let u = self.clone().actual_subscribe(SecondObs { probe: p, calls: 0, nested: Some(n) });
        Box::new(move || u.unsubscribe())
      }
      fn sub_nesting_first(&self, p: Probe, j: Probe) -> Unsub {
        let me = self.clone();
        let n = move || {
          let seen = Behavior::<Val, Val>::peek(&me);
          PEEKED.with(|x| *x.borrow_mut() = Some(seen));
          let _ = me.actual_subscribe(j);
        };
        let u = self.clone().actual_subscribe(SubObs { probe: p, nested: Some(n) });
        Box::new(move || u.unsubscribe())
      }
      fn b_next(&mut self, v: Val) {
        Observer::<Val, Val>::next(self, v)
      }
      fn b_next_by_plus(&mut self, d: Val) {
        Behavior::<Val, Val>::next_by(self, move |x| model::plus(&x, &d))
      }
      fn b_next_by_peeking(&mut self, d: Val) {
        let me = self.clone();
        Behavior::<Val, Val>::next_by(self, move |x| {
          let seen = Behavior::<Val, Val>::peek(&me);
          PEEKED_F.with(|c| *c.borrow_mut() = Some(seen));
          model::plus(&x, &d)
        })
      }
      fn b_peek(&self) -> Val {
        Behavior::<Val, Val>::peek(self)
      }
      fn b_complete(&self) {
        Observer::<Val, Val>::complete(self.clone())
      }
      fn b_error(&self, x: Val) {
        Observer::<Val, Val>::error(self.clone(), x)
      }
    }
  };
}
impl_beh_api!(BehaviorSubject<Val, Subject<'static, Val, Val>>, "BehaviorSubject<Subject>");
impl_beh_api!(BehaviorSubject<Val, SubjectThreads<Val, Val>>, "BehaviorSubject<SubjectThreads>");

pub(crate) fn c12_history<B: BehApi>(nops: usize) {
  let init = Val::var();
  let mut cur = init.clone();
  let first = B::new(init);
  let mut clones: Vec<B> = vec![first];
  const NS: usize = 3;
  let probes: Vec<Probe> = (0..NS).map(|_| fresh_probe()).collect();
  let mut used = 0usize;
  let mut active = [false; NS];
  let mut unsubs: Vec<Option<Unsub>> = (0..NS).map(|_| None).collect();
  let mut want: Vec<Vec<Ev>> = vec![vec![]; NS];
  let mut done = false;
  let mut armed: Option<(usize, usize)> = None; // (host, dependant)
  PEEKED.with(|x| *x.borrow_mut() = None);
  e::note(B::name().to_string());
  'ops: for _ in 0..nops {
    let which = e::choose(clones.len() as u32) as usize;
    let op = e::choose(10);
    match op {
      0 | 1 => {
        let v = Val::var();
        if op == 0 {
          e::note(format!("c{}.next({})", which, v.show()));
          clones[which].b_next(v.clone());
          // "the most recent value passed to any clone": also after a terminal
          cur = v;
        } else if e::choose_bool() {
          e::note(format!("c{}.next_by(+{})", which, v.show()));
          clones[which].b_next_by_plus(v.clone());
          cur = model::plus(&cur, &v);
        } else {
          e::note(format!("c{}.next_by(|x| {{ peek(); x + {} }})", which, v.show()));
          let before = cur.clone();
          PEEKED_F.with(|x| *x.borrow_mut() = None);
          clones[which].b_next_by_peeking(v.clone());
          // the closure ran with the value cell free: it saw the value that was current then
          match PEEKED_F.with(|x| x.borrow_mut().take()) {
            Some(p) => e::check(p.eq_t(&before), &format!("{}/peek-inside-next_by", B::name()), || format!("peek() from inside next_by's closure returned {}, the current value was {}", p.show(), before.show())),
            None => e::fail(&format!("{}/next_by-closure-not-run", B::name()), || "next_by did not call its closure".to_string()),
          }
          cur = model::plus(&cur, &v);
        }
        if !done {
          for i in 0..NS {
            if active[i] {
              want[i].push(Ev::Next(cur.clone()));
            }
          }
          if let Some((host, dep)) = armed {
            if active[host] {
              // the host's callback peeked and subscribed `dep` during this emission
              armed = None;
              let seen = PEEKED.with(|x| x.borrow_mut().take());
              match seen {
                Some(p) => e::check(p.eq_t(&cur), &format!("{}/peek-inside-callback", B::name()), || format!("peek() from inside the callback delivering {} returned {}", cur.show(), p.show())),
                None => e::fail(&format!("{}/nested-action-not-run", B::name()), || "the subscriber's callback did not run".to_string()),
              }
              // joined during the emission: first the current value (the one being delivered), then all later ones
              want[dep].push(Ev::Next(cur.clone()));
              active[dep] = true;
            }
          }
        }
      }
      8 => {
        if used + 2 > NS || done || armed.is_some() {
          break 'ops;
        }
        let (i, j) = (used, used + 1);
        used += 2;
        e::note(format!("c{}.subscribe s{} (peeks and subscribes s{} from inside its next callback)", which, i, j));
        unsubs[i] = Some(clones[which].sub_nesting(probes[i], probes[j]));
        active[i] = true;
        want[i].push(Ev::Next(cur.clone()));
        armed = Some((i, j));
      }
      9 => {
        if used + 2 > NS || done {
          break 'ops;
        }
        let (i, j) = (used, used + 1);
        used += 2;
        e::note(format!("c{}.subscribe s{} (peeks and subscribes s{} from inside the replay of the current value)", which, i, j));
        unsubs[i] = Some(clones[which].sub_nesting_first(probes[i], probes[j]));
        let seen = PEEKED.with(|x| x.borrow_mut().take());
        match seen {
          Some(p) => e::check(p.eq_t(&cur), &format!("{}/peek-inside-replay", B::name()), || format!("peek() from inside the replay callback returned {}, the current value is {}", p.show(), cur.show())),
          None => e::fail(&format!("{}/nested-action-not-run", B::name()), || "the subscriber's replay callback did not run".to_string()),
        }
        active[i] = true;
        active[j] = true;
        want[i].push(Ev::Next(cur.clone()));
        want[j].push(Ev::Next(cur.clone()));
      }
      2 => {
        if clones.len() >= 3 {
          break 'ops;
        }
        e::note(format!("clone c{}", which));
        let c = clones[which].clone();
        clones.push(c);
      }
      3 => {
        if used >= NS {
          break 'ops;
        }
        let i = used;
        used += 1;
        e::note(format!("c{}.subscribe s{}{}", which, i, if done { " (after the terminal)" } else { "" }));
        unsubs[i] = Some(clones[which].sub(probes[i]));
        // "a new subscriber first receives the most recent value": also one that joins after a terminal
        // (it then gets nothing more: the inner subject is closed)
        active[i] = !done;
        want[i].push(Ev::Next(cur.clone()));
      }
      4 => {
        let cands: Vec<usize> = (0..NS).filter(|i| unsubs[*i].is_some()).collect();
        if cands.is_empty() {
          break 'ops;
        }
        let i = cands[e::choose(cands.len() as u32) as usize];
        e::note(format!("unsubscribe s{}", i));
        (unsubs[i].take().unwrap())();
        probes[i].silence();
        active[i] = false;
        if let Some((host, _)) = armed {
          if host == i {
            armed = None;
          }
        }
      }
      5 => {
        let p = clones[which].b_peek();
        e::note(format!("c{}.peek() = {}", which, p.show()));
        e::check(p.eq_t(&cur), &format!("{}/peek", B::name()), || format!("peek() = {} but the most recent value is {}", p.show(), cur.show()));
      }
      6 | _ => {
        if done {
          break 'ops;
        }
        let ev = if op == 6 { Ev::Complete } else { Ev::Err(Val::var()) };
        e::note(format!("c{}.{}", which, world::show_ev(&ev)));
        match &ev {
          Ev::Err(x) => clones[which].b_error(x.clone()),
          _ => clones[which].b_complete(),
        }
        for i in 0..NS {
          if active[i] {
            want[i].push(ev.clone());
            active[i] = false;
          }
        }
        done = true;
      }
    }
  }
  for i in 0..NS {
    let got = probes[i].events();
    let key = format!("{}/subscriber-log", B::name());
    let detail = || format!("subscriber s{}: got [{}] expected [{}]", i, model::show_events(&got), model::show_events(&want[i]));
    match model::compare_events(&got, &want[i]) {
      Ok(t) => e::check(t, &key, detail),
      Err(why) => e::fail(&key, || format!("{} ; {}", why, detail())),
    }
  }
  e::cover("c12-path-complete");
}

// ------------------------------------------------------------------ C11

#[derive(Clone, Copy, PartialEq, Debug)]
pub(crate) enum ShareKind {
  PublishLocal,
  ShareLocal,
  ShareThreads,
}

/// counters: 0 = source subscriptions, 1 = upstream tap calls
pub(crate) fn c11_history(kind: ShareKind, nops: usize) {
  let cold = e::choose_bool();
  let cold_script = if cold { Some(draw_script(2, false)) } else { None };
  // hot source: a parked `create` handle, or a Subject (which consults is_finished / is_closed of its subscribers)
  let subject_src = !cold && e::choose_bool();
  e::note(format!("{:?} over {} source", kind, if cold { "cold synchronous" } else if subject_src { "hot (Subject)" } else { "hot (create handle)" }));
  let cfg = format!("{:?}/{}", kind, if cold { "cold" } else if subject_src { "subject" } else { "handle" });
  e::cfg_begin(&cfg);
  const NS: usize = 3;
  let probes: Vec<Probe> = (0..NS).map(|_| fresh_probe()).collect();
  let mut used = 0usize;
  let mut active = [false; NS];
  let mut unsubs: Vec<Option<Unsub>> = (0..NS).map(|_| None).collect();
  let mut want: Vec<Vec<Ev>> = vec![vec![]; NS];
  let mut connected = false;
  let mut src_done = false;
  let mut ever_subscribed = false;
  // build
  enum Built {
    Pub(Option<ConnectableObservable<Obs, Subject<'static, Val, Val>>>, Subject<'static, Val, Val>),
    Local(rxrust::ops::ref_count::ShareOp<'static, Val, Val, Obs>),
    Threads(rxrust::ops::ref_count::ShareOpThreads<Val, Val, ObsT>),
  }
  let tapf = |_: &Val| {
    world::bump(1);
  };
  let built = match kind {
    ShareKind::PublishLocal | ShareKind::ShareLocal => {
      let src: Obs = match &cold_script {
        Some(s) => cat::cold(s.items.clone(), s.term.clone(), 0),
        None if subject_src => {
          let sj = cat::hot_kind(0, 1);
          observable::defer(move || {
            world::bump(0);
            sj.clone()
          })
          .box_it()
        }
        None => observable::create(|s: cat::Handle| {
          world::bump(0);
          cat::HANDLES.with(|h| h.borrow_mut().push((0, s)))
        })
        .box_it(),
      };
      let src: Obs = src.tap(tapf).box_it();
      if kind == ShareKind::PublishLocal {
        let c = src.publish::<Subject<'static, Val, Val>>();
        let f = c.fork();
        Built::Pub(Some(c), f)
      } else {
        Built::Local(src.share())
      }
    }
    ShareKind::ShareThreads => {
      let src: ObsT = match &cold_script {
        Some(s) => cat::cold_t(s.items.clone(), s.term.clone(), 0),
        None if subject_src => {
          let sj = cat::hot_kind_t(0, 1);
          observable::defer(move || {
            world::bump(0);
            sj.clone()
          })
          .box_it()
        }
        None => observable::create(|s: cat::HandleT| {
          world::bump(0);
          cat::HANDLES_T.with(|h| h.borrow_mut().push((0, s)))
        })
        .box_it(),
      };
      let src: ObsT = src.tap(tapf).box_it();
      Built::Threads(src.share_threads())
    }
  };
  let mut built = built;
  if world::counter(0) != 0 {
    e::fail("share/eager-source-subscription", || "the source was subscribed while the pipeline was being built".to_string());
  }
  let deliver_cold = |want: &mut Vec<Vec<Ev>>, active: &mut [bool; NS], s: &model::Script| {
    for ev in s.events() {
      for i in 0..NS {
        if active[i] {
          want[i].push(ev.clone());
          if !matches!(ev, Ev::Next(_)) {
            active[i] = false;
          }
        }
      }
    }
  };
  let mut was_zero = false;
  // (host, dependant): the host's first callback subscribes the dependant to the shared observable
  let mut armed: Option<(usize, usize)> = None;
  'ops: for _ in 0..nops {
    let op = e::choose(5);
    match op {
      4 => {
        // subscribe s_i whose first callback subscribes s_j to the same shared observable (hot sources)
        if cold || used + 2 > NS || armed.is_some() || src_done {
          break 'ops;
        }
        let (i, j) = (used, used + 1);
        used += 2;
        e::note(format!("subscribe s{} (subscribes s{} from inside its first callback)", i, j));
        let first = !ever_subscribed;
        ever_subscribed = true;
        active[i] = true;
        let pj = probes[j];
        match &mut built {
          Built::Pub(_, f) => {
            let f2 = f.clone();
            let n = move || std::mem::forget(f2.clone().actual_subscribe(pj));
            let u = f.clone().actual_subscribe(SubObs { probe: probes[i], nested: Some(n) });
            unsubs[i] = Some(Box::new(move || u.unsubscribe()));
          }
          Built::Local(s) => {
            if first {
              connected = true;
            }
            let s2 = s.clone();
            let n = move || std::mem::forget(s2.clone().actual_subscribe(pj));
            let u = s.clone().actual_subscribe(SubObs { probe: probes[i], nested: Some(n) });
            unsubs[i] = Some(Box::new(move || u.unsubscribe()));
          }
          Built::Threads(s) => {
            if first {
              connected = true;
            }
            let s2 = s.clone();
            let n = move || std::mem::forget(s2.clone().actual_subscribe(pj));
            let u = s.clone().actual_subscribe(SubObs { probe: probes[i], nested: Some(n) });
            unsubs[i] = Some(Box::new(move || u.unsubscribe()));
          }
        }
        armed = Some((i, j));
      }
      0 => {
        if used >= NS {
          break 'ops; // nothing left to do for this operation: the history ends here
        }
        let i = used;
        used += 1;
        e::note(format!("subscribe s{}", i));
        let first = !ever_subscribed;
        ever_subscribed = true;
        active[i] = !src_done;
        match &mut built {
          Built::Pub(_, f) => {
            let u = f.clone().actual_subscribe(probes[i]);
            unsubs[i] = Some(Box::new(move || u.unsubscribe()));
          }
          Built::Local(s) => {
            if first {
              connected = true;
            }
            let u = s.clone().actual_subscribe(probes[i]);
            unsubs[i] = Some(Box::new(move || u.unsubscribe()));
          }
          Built::Threads(s) => {
            if first {
              connected = true;
            }
            let u = s.clone().actual_subscribe(probes[i]);
            unsubs[i] = Some(Box::new(move || u.unsubscribe()));
          }
        }
        if first && kind != ShareKind::PublishLocal {
          if let Some(s) = &cold_script {
            // share connects on the first subscription: a synchronous source runs right now
            deliver_cold(&mut want, &mut active, s);
            src_done = !matches!(s.term, Tm::None);
          }
        }
      }
      1 => {
        let cands: Vec<usize> = (0..NS).filter(|i| unsubs[*i].is_some()).collect();
        if cands.is_empty() {
          break 'ops;
        }
        let i = cands[e::choose(cands.len() as u32) as usize];
        e::note(format!("unsubscribe s{}", i));
        (unsubs[i].take().unwrap())();
        probes[i].silence();
        let was_active = active[i];
        active[i] = false;
        if let Some((host, _)) = armed {
          if host == i {
            armed = None; // its callback never ran: the dependant is never subscribed
          }
        }
        if was_active && !active.iter().any(|a| *a) && kind != ShareKind::PublishLocal {
          was_zero = true; // the ref-count dropped to zero: whether the source stays connected is not specified
        }
      }
      2 => {
        // a source event (hot source only)
        if cold {
          break 'ops;
        }
        let ev = match e::choose(3) {
          0 => Ev::Next(Val::var()),
          1 => Ev::Complete,
          _ => Ev::Err(Val::var()),
        };
        if was_zero && !matches!(ev, Ev::Next(_)) {
          // after a zero-ref-count moment only items are judged (through the upstream tap): a terminal
          // may or may not still reach the shared subject
          break 'ops;
        }
        e::note(format!("source.{}", world::show_ev(&ev)));
        let taps_before = world::counter(1);
        let had_subscribers = active.iter().any(|a| *a);
        let delivered = match kind {
          ShareKind::ShareThreads => cat::feed_hot_t(0, &ev),
          _ => cat::feed_hot(0, &ev),
        };
        let tapped = world::counter(1) != taps_before;
        if delivered && !src_done && (tapped || !matches!(ev, Ev::Next(_)) || !was_zero) {
          let mut joins: Option<usize> = None;
          for i in 0..NS {
            if active[i] {
              want[i].push(ev.clone());
              if let Some((host, dep)) = armed {
                if host == i {
                  // the host's callback ran: the dependant joined during this emission (it does not see this
                  // item; joining during a terminal it sees nothing at all)
                  armed = None;
                  if matches!(ev, Ev::Next(_)) {
                    joins = Some(dep);
                  }
                }
              }
              if !matches!(ev, Ev::Next(_)) {
                active[i] = false;
              }
            }
          }
          if let Some(dep) = joins {
            active[dep] = true;
          }
          if !matches!(ev, Ev::Next(_)) {
            src_done = true;
          }
          if kind != ShareKind::PublishLocal && ever_subscribed && !had_subscribers && matches!(ev, Ev::Next(_)) && world::counter(1) != taps_before {
            e::fail("share/source-driven-after-last-unsubscribe", || "every subscriber has unsubscribed, yet a source item still ran the upstream tap on the shared observable's behalf".to_string());
          }
        }
      }
      _ => {
        // connect (publish only)
        match &mut built {
          Built::Pub(c, _) => match c.take() {
            Some(c) => {
              e::note("connect()".to_string());
              if world::counter(0) != 0 {
                e::fail("publish/subscribed-before-connect", || "source subscribed before connect()".to_string());
              }
              connected = true;
              let _u = c.connect();
              if let Some(s) = &cold_script {
                deliver_cold(&mut want, &mut active, s);
                src_done = !matches!(s.term, Tm::None);
              }
            }
            None => break 'ops,
          },
          _ => break 'ops,
        }
      }
    }
    let subs = world::counter(0);
    if !connected && subs != 0 {
      e::fail("share/subscribed-before-connect", || format!("source subscribed {} time(s) before connect / first subscriber", subs));
    }
    if subs > 1 {
      e::fail("share/source-subscribed-more-than-once", || format!("source subscribed {} times", subs));
    }
    if connected && subs != 1 {
      e::fail("share/source-not-subscribed-on-connect", || format!("source subscribed {} times after connect", subs));
    }
  }
  for i in 0..NS {
    let got = probes[i].events();
    let key = format!("{:?}/subscriber-log", kind);
    let detail = || format!("subscriber s{}: got [{}] expected [{}]", i, model::show_events(&got), model::show_events(&want[i]));
    match model::compare_events(&got, &want[i]) {
      Ok(t) => e::check(t, &key, detail),
      Err(why) => e::fail(&key, || format!("{} ; {}", why, detail())),
    }
  }
  e::cfg_end(&cfg);
  e::cover("c11-path-complete");
}

// ------------------------------------------------------------------ C20

thread_local! {
  static GROUPS: RefCell<Vec<(Val, Probe)>> = RefCell::new(vec![]);
  /// per announced group of the first subscription: subscribe one more listener through a kept clone of its KeyObservable
  static KEPT: RefCell<Vec<Box<dyn Fn(Probe)>>> = RefCell::new(vec![]);
}

struct GroupOuter<S> {
  outer: Probe,
  _s: std::marker::PhantomData<S>,
}

macro_rules! impl_group_outer {
  ($subj:ty) => {
    impl Observer<rxrust::ops::group_by::KeyObservable<Val, $subj>, Val> for GroupOuter<$subj> {
      fn next(&mut self, g: rxrust::ops::group_by::KeyObservable<Val, $subj>) {
        let p = fresh_probe();
        let key = g.key.clone();
        e::note(format!("group announced key={}", key.show()));
        Observer::<Val, Val>::next(&mut self.outer, key.clone());
        GROUPS.with(|gs| gs.borrow_mut().push((key, p)));
        let kept = g.clone();
        KEPT.with(|k| k.borrow_mut().push(Box::new(move |q: Probe| std::mem::forget(kept.clone().actual_subscribe(q)))));
        // an earlier subscriber of the same group that leaves after its first item
        let early = fresh_probe();
        let _ = g.clone().take(1).actual_subscribe(early);
        let _ = g.actual_subscribe(p);
      }
      fn error(self, x: Val) {
        Observer::<Val, Val>::error(self.outer, x)
      }
      fn complete(self) {
        Observer::<Val, Val>::complete(self.outer)
      }
      fn is_finished(&self) -> bool {
        Observer::<Val, Val>::is_finished(&self.outer)
      }
    }
  };
}
impl_group_outer!(Subject<'static, Val, Val>);
impl_group_outer!(SubjectThreads<Val, Val>);

fn keyfn(kind: u32, v: &Val) -> Val {
  match kind {
    0 => Val::c(0),
    1 => v.clone(),
    2 => Val::S(v.sym().modc(2)),
    _ => Val::S(v.sym().modc(3)),
  }
}

pub(crate) fn c20_group_by(max_len: u32, threads_form: bool) {
  GROUPS.with(|g| g.borrow_mut().clear());
  KEPT.with(|g| g.borrow_mut().clear());
  // key kinds 0..3 are pure functions of the item; 4 is a stateful discriminator (round robin over 2 groups: the
  // n-th call answers n mod 2), which must be asked exactly once per item for the routing to be what it says
  let kind = e::choose(5);
  let script = draw_script(max_len, true);
  e::note(format!("group_by key{} {} input [{}]", kind, if threads_form { "SubjectThreads" } else { "Subject" }, script.show()));
  let outer = fresh_probe();
  let flat = fresh_probe();
  let hot = e::choose_bool();
  e::cfg_begin(&format!("key{}/{}", kind, if hot { "hot" } else { "cold" }));
  // a hot source is a parked `create` handle or a Subject (which asks its subscribers is_finished / is_closed)
  let hk = if hot { e::choose(2) } else { 0 };
  // optionally the stream of groups is cut after n groups (only with sources that do not ask
  // their subscriber whether it is finished): groups already handed out keep receiving
  let outer_take: usize = if hk == 0 { e::choose(3) as usize } else { 0 };
  if outer_take > 0 {
    e::note(format!("stream of groups cut by take({})", outer_take));
  }
  // two more listeners join one of the groups announced so far, between two source events, through a kept clone of
  // its KeyObservable (the group's first listener, which left after one item, still occupies its slot)
  let mut late: Option<(usize, Probe, Probe)> = None;
  #[allow(unused_assignments)]
  let mut late_at = usize::MAX;
  fn late_join(late: &mut Option<(usize, Probe, Probe)>) {
    let n = KEPT.with(|k| k.borrow().len());
    if n == 0 {
      return;
    }
    let gi = e::choose(n as u32) as usize;
    let (a, b) = (fresh_probe(), fresh_probe());
    e::note(format!("two listeners join group {}", gi));
    KEPT.with(|k| {
      let k = k.borrow();
      (k[gi])(a);
      (k[gi])(b);
    });
    *late = Some((gi, a, b));
  }
  if !threads_form {
    let mk = |src: Obs| {
      let mut calls = 0i64;
      src.group_by::<_, Val, Subject<'static, Val, Val>>(move |v: &Val| {
        calls += 1;
        if kind == 4 { Val::c((calls - 1) % 2) } else { keyfn(kind, v) }
      })
    };
    if hot {
      if outer_take > 0 {
        let _u = rxrust::ops::take::TakeOp::new(mk(cat::hot_kind(0, hk)), outer_take).actual_subscribe(GroupOuter::<Subject<'static, Val, Val>> { outer, _s: Default::default() });
      } else {
        let _u = mk(cat::hot_kind(0, hk)).actual_subscribe(GroupOuter::<Subject<'static, Val, Val>> { outer, _s: Default::default() });
      }
      let _f = mk(cat::hot_kind(1, hk)).flat_map(|g| g).actual_subscribe(flat);
      let evs = script.events();
      late_at = e::choose(evs.len() as u32 + 2) as usize;
      for (i, ev) in evs.iter().enumerate() {
        if i == late_at {
          late_join(&mut late);
        }
        cat::feed_hot(0, ev);
      }
      if late_at == evs.len() {
        late_join(&mut late);
      }
      for ev in script.events() {
        cat::feed_hot(1, &ev);
      }
    } else {
      if outer_take > 0 {
        let _u = rxrust::ops::take::TakeOp::new(mk(cat::cold(script.items.clone(), script.term.clone(), 0)), outer_take).actual_subscribe(GroupOuter::<Subject<'static, Val, Val>> { outer, _s: Default::default() });
      } else {
        let _u = mk(cat::cold(script.items.clone(), script.term.clone(), 0)).actual_subscribe(GroupOuter::<Subject<'static, Val, Val>> { outer, _s: Default::default() });
      }
      let _f = mk(cat::cold(script.items.clone(), script.term.clone(), 0)).flat_map(|g| g).actual_subscribe(flat);
    }
  } else {
    let mk = |src: ObsT| {
      let mut calls = 0i64;
      src.group_by::<_, Val, SubjectThreads<Val, Val>>(move |v: &Val| {
        calls += 1;
        if kind == 4 { Val::c((calls - 1) % 2) } else { keyfn(kind, v) }
      })
    };
    if hot {
      if outer_take > 0 {
        let _u = rxrust::ops::take::TakeOp::new(mk(cat::hot_kind_t(0, hk)), outer_take).actual_subscribe(GroupOuter::<SubjectThreads<Val, Val>> { outer, _s: Default::default() });
      } else {
        let _u = mk(cat::hot_kind_t(0, hk)).actual_subscribe(GroupOuter::<SubjectThreads<Val, Val>> { outer, _s: Default::default() });
      }
      let _f = mk(cat::hot_kind_t(1, hk)).flat_map_threads(|g| g).actual_subscribe(flat);
      let evs = script.events();
      late_at = e::choose(evs.len() as u32 + 2) as usize;
      for (i, ev) in evs.iter().enumerate() {
        if i == late_at {
          late_join(&mut late);
        }
        cat::feed_hot_t(0, ev);
      }
      if late_at == evs.len() {
        late_join(&mut late);
      }
      for ev in script.events() {
        cat::feed_hot_t(1, &ev);
      }
    } else {
      if outer_take > 0 {
        let _u = rxrust::ops::take::TakeOp::new(mk(cat::cold_t(script.items.clone(), script.term.clone(), 0)), outer_take).actual_subscribe(GroupOuter::<SubjectThreads<Val, Val>> { outer, _s: Default::default() });
      } else {
        let _u = mk(cat::cold_t(script.items.clone(), script.term.clone(), 0)).actual_subscribe(GroupOuter::<SubjectThreads<Val, Val>> { outer, _s: Default::default() });
      }
      let _f = mk(cat::cold_t(script.items.clone(), script.term.clone(), 0)).flat_map_threads(|g| g).actual_subscribe(flat);
    }
  }
  // oracle: partition by key in order of first appearance
  let mut keys: Vec<Val> = vec![];
  let mut parts: Vec<Vec<Val>> = vec![];
  let key_of = |i: usize, v: &Val| if kind == 4 { Val::c(i as i64 % 2) } else { keyfn(kind, v) };
  for (i, v) in script.items.iter().enumerate() {
    let k = key_of(i, v);
    match keys.iter().position(|x| *x == k) {
      Some(i) => parts[i].push(v.clone()),
      None => {
        keys.push(k);
        parts.push(vec![v.clone()]);
      }
    }
  }
  let groups: Vec<(Val, Probe)> = GROUPS.with(|g| g.borrow().clone());
  let announced = if outer_take > 0 { keys.len().min(outer_take) } else { keys.len() };
  if groups.len() != announced {
    e::fail("group_by/group-count", || format!("{} groups announced for {} distinct keys (cut after {}); input [{}]", groups.len(), keys.len(), outer_take, script.show()));
  }
  let mut want_outer: Vec<Ev> = keys.iter().take(announced).cloned().map(Ev::Next).collect();
  if outer_take > 0 && keys.len() >= outer_take {
    want_outer.push(Ev::Complete); // the cut completes the stream of groups
  } else {
    match &script.term {
      Tm::None => {}
      Tm::Complete => want_outer.push(Ev::Complete),
      Tm::Error(x) => want_outer.push(Ev::Err(x.clone())),
    }
  }
  let got_outer = outer.events();
  match model::compare_events(&got_outer, &want_outer) {
    Ok(t) => e::check(t, "group_by/outer-stream", || format!("outer got [{}] expected [{}]", model::show_events(&got_outer), model::show_events(&want_outer))),
    Err(why) => e::fail("group_by/outer-stream", || format!("{}; outer got [{}] expected [{}]", why, model::show_events(&got_outer), model::show_events(&want_outer))),
  }
  for (i, (_, p)) in groups.iter().enumerate() {
    let want = model::Script { items: parts[i].clone(), term: script.term.clone() };
    let got = p.events();
    match model::compare(&got, &want) {
      Ok(t) => e::check(t, "group_by/group-log", || format!("group {} got [{}] expected [{}]", i, model::show_events(&got), want.show())),
      Err(why) => e::fail("group_by/group-log", || format!("{}; group {} got [{}] expected [{}]", why, i, model::show_events(&got), want.show())),
    }
  }
  // the late listeners: the later items of their key, then the source's terminal
  if let Some((gi, a, b)) = late {
    let key = &keys[gi];
    let later: Vec<Val> = script.items.iter().enumerate().filter(|(i, v)| *i >= late_at && key_of(*i, v) == *key).map(|(_, v)| v.clone()).collect();
    let joined_before_terminal = late_at <= script.items.len();
    let want = model::Script { items: later, term: if joined_before_terminal { script.term.clone() } else { Tm::None } };
    for (n, q) in [a, b].iter().enumerate() {
      let got = q.events();
      match model::compare(&got, &want) {
        Ok(t) => e::check(t, "group_by/late-listener-log", || format!("late listener {} of group {} got [{}] expected [{}]", n, gi, model::show_events(&got), want.show())),
        Err(why) => e::fail("group_by/late-listener-log", || format!("{}; late listener {} of group {} (joined before event {}) got [{}] expected [{}]", why, n, gi, late_at, model::show_events(&got), want.show())),
      }
    }
  }
  // flattening the groups back reproduces the source sequence
  let got = flat.events();
  match model::compare(&got, &script) {
    Ok(t) => e::check(t, "group_by/flatten-back", || format!("flattened got [{}] expected [{}]", model::show_events(&got), script.show())),
    Err(why) => e::fail("group_by/flatten-back", || format!("{}; flattened got [{}] expected [{}]", why, model::show_events(&got), script.show())),
  }
  e::cfg_end(&format!("key{}/{}", kind, if hot { "hot" } else { "cold" }));
  e::cover("c20-path-complete");
}

// ------------------------------------------------------------------ C05

type OuterHandle = Subscriber<rxrust::observer::BoxObserver<'static, Obs, Val>>;
type OuterHandleT = SubscriberThreads<rxrust::observer::BoxObserverThreads<ObsT, Val>>;
thread_local! {
  static OUTER: RefCell<Option<OuterHandle>> = RefCell::new(None);
  static OUTER_T: RefCell<Option<OuterHandleT>> = RefCell::new(None);
}

pub fn reset() {
  let a = OUTER.with(|o| o.borrow_mut().take());
  let b = OUTER_T.with(|o| o.borrow_mut().take());
  let c = GROUPS.with(|g| std::mem::take(&mut *g.borrow_mut()));
  let _ = std::panic::catch_unwind(std::panic::AssertUnwindSafe(move || {
    drop(a);
    drop(b);
    drop(c);
  }));
}

#[derive(Clone, Debug)]
enum InnerSpec {
  Cold(model::Script),
  Hot,
  /// a Subject as inner observable (it consults its subscriber's is_finished/is_closed)
  HotSubj,
}
impl InnerSpec {
  fn is_hot(&self) -> bool {
    !matches!(self, InnerSpec::Cold(_))
  }
}

/// a Subject inner that counts its subscription like the other inners do
#[derive(Clone)]
struct EnterSubj<S>(usize, S);
fn enter_inner(k: usize) {
  // a synchronous outer must stop handing out inners once the subscriber has finished (counter 2 = this rule is on)
  if world::counter(2) == 1 && world::w(|w| w.probes.first().map_or(false, |p| p.terminated)) {
    e::fail("flatten/outer-keeps-going-after-output-finished", || format!("inner {} was subscribed although the flattened stream's subscriber had already finished: a synchronous outer over an unbounded iterator would never return", k));
  }
  world::bump(100 + k);
  let live = world::bump(0);
  let lim = world::counter(1);
  if live > lim {
    e::fail("flatten/concurrency-limit-exceeded", || format!("{} inner observables subscribed at once, limit {}", live, lim));
  }
}
impl<O: Observer<Val, Val> + 'static> Observable<Val, Val, O> for EnterSubj<Subject<'static, Val, Val>> {
  type Unsub = Subscriber<O>;
  fn actual_subscribe(self, observer: O) -> Self::Unsub {
    enter_inner(self.0);
    self.1.actual_subscribe(observer)
  }
}
impl ObservableExt<Val, Val> for EnterSubj<Subject<'static, Val, Val>> {}
impl<O: Observer<Val, Val> + Send + 'static> Observable<Val, Val, O> for EnterSubj<SubjectThreads<Val, Val>> {
  type Unsub = SubscriberThreads<O>;
  fn actual_subscribe(self, observer: O) -> Self::Unsub {
    enter_inner(self.0);
    self.1.actual_subscribe(observer)
  }
}
impl ObservableExt<Val, Val> for EnterSubj<SubjectThreads<Val, Val>> {}

#[derive(Clone, Copy, PartialEq, Debug)]
enum FlatOp {
  MergeAll(usize),
  ConcatAll,
  Flatten,
  FlatMap,
  ConcatMap,
}

/// counters: 0 = live inner subscriptions, 1 = the limit, 100+k = subscriptions of inner k
fn inner_obs(k: usize, spec: &InnerSpec) -> Obs {
  let enter = move || {
    world::bump(100 + k);
    let live = world::bump(0);
    let lim = world::counter(1);
    if live > lim {
      e::fail("flatten/concurrency-limit-exceeded", || format!("{} inner observables subscribed at once, limit {}", live, lim));
    }
  };
  match spec.clone() {
    InnerSpec::Cold(s) => observable::create(move |mut h: cat::Handle| {
      enter();
      for v in s.items {
        h.next(v);
      }
      // leaves the live set with its terminal
      let live = world::counter(0);
      match s.term {
        Tm::None => {}
        Tm::Complete => {
          world::set_counter(0, live - 1);
          h.complete()
        }
        Tm::Error(x) => {
          world::set_counter(0, live - 1);
          h.error(x)
        }
      }
    })
    .box_it(),
    InnerSpec::Hot => {
      let o: Obs = observable::create(move |h: cat::Handle| {
        enter();
        cat::HANDLES.with(|hs| hs.borrow_mut().push((200 + k, h)))
      })
      .box_it();
      // every run of this inner's finalizer is counted (counter 300+k): once per subscription of the inner
      o.finalize(move || {
        world::bump(300 + k);
      })
      .box_it()
    }
    InnerSpec::HotSubj => {
      // one Subject per inner index, however often the observable value is built
      let old = cat::SUBJECTS.with(|h| h.borrow().iter().find(|(t, _)| *t == 200 + k).map(|(_, s)| s.clone()));
      let sj = old.unwrap_or_else(|| {
        let sj: Subject<'static, Val, Val> = Subject::default();
        cat::SUBJECTS.with(|h| h.borrow_mut().push((200 + k, sj.clone())));
        sj
      });
      EnterSubj(k, sj).box_it()
    }
  }
}

fn inner_obs_t(k: usize, spec: &InnerSpec) -> ObsT {
  let enter = move || {
    world::bump(100 + k);
    let live = world::bump(0);
    let lim = world::counter(1);
    if live > lim {
      e::fail("flatten/concurrency-limit-exceeded", || format!("{} inner observables subscribed at once, limit {}", live, lim));
    }
  };
  match spec.clone() {
    InnerSpec::Cold(s) => observable::create(move |mut h: cat::HandleT| {
      enter();
      for v in s.items {
        h.next(v);
      }
      let live = world::counter(0);
      match s.term {
        Tm::None => {}
        Tm::Complete => {
          world::set_counter(0, live - 1);
          h.complete()
        }
        Tm::Error(x) => {
          world::set_counter(0, live - 1);
          h.error(x)
        }
      }
    })
    .box_it(),
    InnerSpec::Hot => {
      let o: ObsT = observable::create(move |h: cat::HandleT| {
        enter();
        cat::HANDLES_T.with(|hs| hs.borrow_mut().push((200 + k, h)))
      })
      .box_it();
      o.finalize_threads(move || {
        world::bump(300 + k);
      })
      .box_it()
    }
    InnerSpec::HotSubj => {
      let old = cat::SUBJECTS_T.with(|h| h.borrow().iter().find(|(t, _)| *t == 200 + k).map(|(_, s)| s.clone()));
      let sj = old.unwrap_or_else(|| {
        let sj: SubjectThreads<Val, Val> = SubjectThreads::default();
        cat::SUBJECTS_T.with(|h| h.borrow_mut().push((200 + k, sj.clone())));
        sj
      });
      EnterSubj(k, sj).box_it()
    }
  }
}

/// C05 with the flattened stream multicast through a Subject (what share()/publish() do), Subject inners and a
/// synchronous from_iter outer: everything upstream that consults is_finished()/is_closed() now asks a Subject.
pub(crate) fn c05_multicast(nsteps: usize, ninner: usize, threads_form: bool) {
  let op = match e::choose(5) {
    0 => FlatOp::MergeAll(1 + e::choose(ninner as u32 + 1) as usize),
    1 => FlatOp::ConcatAll,
    2 => FlatOp::Flatten,
    3 => FlatOp::FlatMap,
    _ => FlatOp::ConcatMap,
  };
  let limit: usize = match op {
    FlatOp::MergeAll(n) => n,
    FlatOp::ConcatAll | FlatOp::ConcatMap => 1,
    _ => usize::MAX,
  };
  world::set_counter(1, if limit == usize::MAX { i64::MAX } else { limit as i64 });
  let sync_outer = e::choose_bool();
  let relay = e::choose_bool();
  // an operator below the flattening one that finishes early
  let post_take = e::choose(3) as usize;
  // (the rule of enter_inner is on only while the synchronous outer runs, i.e. during subscribe())
  let rule_on = sync_outer && post_take > 0;
  let specs: Vec<InnerSpec> = (0..ninner)
    .map(|_| match e::choose(3) { 0 => InnerSpec::Hot, 1 => InnerSpec::HotSubj, _ => InnerSpec::Cold(draw_script(2, false)) })
    .collect();
  e::note(format!("{:?}{}{}{}{} inners [{}]", op, if threads_form { " (threads)" } else { "" }, if sync_outer { " from_iter outer" } else { "" }, if relay { " multicast through a Subject" } else { "" }, if post_take > 0 { format!(" then take({})", post_take) } else { String::new() }, specs.iter().map(|s| match s { InnerSpec::Hot => "hot".to_string(), InnerSpec::HotSubj => "subject".to_string(), InnerSpec::Cold(s) => format!("cold[{}]", s.show()) }).collect::<Vec<_>>().join(", ")));
  let probe = fresh_probe();
  let cfg = format!("{}{}{}", format!("{:?}", op).chars().filter(|c| c.is_ascii_alphabetic()).collect::<String>(), if sync_outer { "/sync" } else { "" }, if relay { "/relay" } else { "" });
  e::cfg_begin(&cfg);
  let via_map = matches!(op, FlatOp::FlatMap | FlatOp::ConcatMap);
  if !threads_form {
    let inners: Vec<Obs> = specs.iter().enumerate().map(|(k, s)| inner_obs(k, s)).collect();
    let flat: rxrust::ops::box_it::BoxOp<'static, Val, Val> = if via_map {
      let src: Obs = if sync_outer { observable::from_iter((0..ninner).map(|k| Val::c(k as i64)).collect::<Vec<_>>()).on_error_map(|_: std::convert::Infallible| Val::c(0)).box_it() } else { cat::hot_tagged(0) };
      let f = move |v: Val| inners[v.sym().konst().unwrap() as usize].clone();
      if op == FlatOp::FlatMap { src.flat_map(f).box_it() } else { src.concat_map(f).box_it() }
    } else {
      let src: rxrust::ops::box_it::BoxOp<'static, Obs, Val> = if sync_outer { observable::from_iter(inners).on_error_map(|_: std::convert::Infallible| Val::c(0)).box_it() } else { observable::create(|s: OuterHandle| OUTER.with(|o| *o.borrow_mut() = Some(s))).box_it() };
      match op {
        FlatOp::MergeAll(n) => src.merge_all(n).box_it(),
        FlatOp::ConcatAll => src.concat_all().box_it(),
        _ => src.flatten().box_it(),
      }
    };
    let flat: rxrust::ops::box_it::BoxOp<'static, Val, Val> = if post_take > 0 { flat.take(post_take).box_it() } else { flat };
    let flat: rxrust::ops::box_it::BoxOp<'static, Val, Val> = if relay { cat::RelayG(flat).box_it() } else { flat };
    world::set_counter(2, rule_on as i64);
    let u = flat.actual_subscribe(probe);
    world::set_counter(2, 0);
    world::set_counter(3, post_take as i64);
    drive_c05_x(op, &specs, nsteps, limit, probe, false, |k| inner_obs(k, &specs[k]), |_k| unreachable!(), None, None, sync_outer, &cfg);
    std::mem::forget(u);
  } else {
    let inners: Vec<ObsT> = specs.iter().enumerate().map(|(k, s)| inner_obs_t(k, s)).collect();
    let flat: rxrust::ops::box_it::BoxOpThreads<Val, Val> = if via_map {
      let src: ObsT = if sync_outer { observable::from_iter((0..ninner).map(|k| Val::c(k as i64)).collect::<Vec<_>>()).on_error_map(|_: std::convert::Infallible| Val::c(0)).box_it() } else { cat::hot_tagged_t(0) };
      let f = move |v: Val| inners[v.sym().konst().unwrap() as usize].clone();
      if op == FlatOp::FlatMap { src.flat_map_threads(f).box_it() } else { src.concat_map_threads(f).box_it() }
    } else {
      let src: rxrust::ops::box_it::BoxOpThreads<ObsT, Val> = if sync_outer { observable::from_iter(inners).on_error_map(|_: std::convert::Infallible| Val::c(0)).box_it() } else { observable::create(|s: OuterHandleT| OUTER_T.with(|o| *o.borrow_mut() = Some(s))).box_it() };
      match op {
        FlatOp::MergeAll(n) => src.merge_all_threads(n).box_it(),
        FlatOp::ConcatAll => src.concat_all_threads().box_it(),
        _ => src.flatten_threads().box_it(),
      }
    };
    let flat: rxrust::ops::box_it::BoxOpThreads<Val, Val> = if post_take > 0 { flat.take(post_take).box_it() } else { flat };
    let flat: rxrust::ops::box_it::BoxOpThreads<Val, Val> = if relay { cat::RelayGT(flat).box_it() } else { flat };
    world::set_counter(2, rule_on as i64);
    let u = flat.actual_subscribe(probe);
    world::set_counter(2, 0);
    world::set_counter(3, post_take as i64);
    drive_c05_x(op, &specs, nsteps, limit, probe, true, |_k| unreachable!(), |k| inner_obs_t(k, &specs[k]), None, None, sync_outer, &cfg);
    std::mem::forget(u);
  }
}

pub(crate) fn c05_flatten(nsteps: usize, ninner: usize, threads_form: bool) {
  c05_flatten_x(nsteps, ninner, threads_form, false)
}

pub(crate) fn c05_flatten_x(nsteps: usize, ninner: usize, threads_form: bool, cut: bool) {
  let op = match e::choose(5) {
    0 => FlatOp::MergeAll(1 + e::choose(ninner as u32 + 1) as usize),
    1 => FlatOp::ConcatAll,
    2 => FlatOp::Flatten,
    3 => FlatOp::FlatMap,
    _ => FlatOp::ConcatMap,
  };
  let limit: usize = match op {
    FlatOp::MergeAll(n) => n,
    FlatOp::ConcatAll | FlatOp::ConcatMap => 1,
    _ => usize::MAX,
  };
  world::set_counter(1, if limit == usize::MAX { i64::MAX } else { limit as i64 });
  let specs: Vec<InnerSpec> = (0..ninner)
    .map(|_| if e::choose_bool() { InnerSpec::Hot } else { InnerSpec::Cold(draw_script(2, false)) })
    .collect();
  e::note(format!("{:?}{} inners [{}]", op, if threads_form { " (threads)" } else { "" }, specs.iter().map(|s| match s { InnerSpec::Hot => "hot".to_string(), InnerSpec::HotSubj => "subject".to_string(), InnerSpec::Cold(s) => format!("cold[{}]", s.show()) }).collect::<Vec<_>>().join(", ")));
  let probe = fresh_probe();
  e::cfg_begin(&format!("{:?}", op).chars().filter(|c| c.is_ascii_alphabetic()).collect::<String>());
  let mut unsub: Option<Box<dyn FnOnce()>> = None;
  let mut closed_q: Option<Box<dyn Fn() -> bool>> = None;
  // build and subscribe
  if !threads_form {
    let inners: Vec<Obs> = specs.iter().enumerate().map(|(k, s)| inner_obs(k, s)).collect();
    match op {
      FlatOp::FlatMap | FlatOp::ConcatMap => {
        let src = cat::hot_tagged(0);
        let f = move |v: Val| inners[v.sym().konst().unwrap() as usize].clone();
        if op == FlatOp::FlatMap {
          { let u = src.flat_map(f).actual_subscribe(probe); let u2 = u.clone(); closed_q = Some(Box::new(move || u2.is_closed())); unsub = Some(Box::new(move || u.unsubscribe())); }
        } else {
          { let u = src.concat_map(f).actual_subscribe(probe); let u2 = u.clone(); closed_q = Some(Box::new(move || u2.is_closed())); unsub = Some(Box::new(move || u.unsubscribe())); }
        }
      }
      _ => {
        let src: rxrust::ops::box_it::BoxOp<'static, Obs, Val> = observable::create(|s: OuterHandle| OUTER.with(|o| *o.borrow_mut() = Some(s))).box_it();
        match op {
          FlatOp::MergeAll(n) => {
            { let u = src.merge_all(n).actual_subscribe(probe); let u2 = u.clone(); closed_q = Some(Box::new(move || u2.is_closed())); unsub = Some(Box::new(move || u.unsubscribe())); }
          }
          FlatOp::ConcatAll => {
            { let u = src.concat_all().actual_subscribe(probe); let u2 = u.clone(); closed_q = Some(Box::new(move || u2.is_closed())); unsub = Some(Box::new(move || u.unsubscribe())); }
          }
          _ => {
            { let u = src.flatten().actual_subscribe(probe); let u2 = u.clone(); closed_q = Some(Box::new(move || u2.is_closed())); unsub = Some(Box::new(move || u.unsubscribe())); }
          }
        }
      }
    }
    drive_c05(op, &specs, nsteps, limit, probe, false, |k| inner_obs(k, &specs[k]), |_k| unreachable!(), if cut { unsub.take() } else { None }, closed_q.take());
  } else {
    let inners: Vec<ObsT> = specs.iter().enumerate().map(|(k, s)| inner_obs_t(k, s)).collect();
    match op {
      FlatOp::FlatMap | FlatOp::ConcatMap => {
        let src = cat::hot_tagged_t(0);
        let f = move |v: Val| inners[v.sym().konst().unwrap() as usize].clone();
        if op == FlatOp::FlatMap {
          { let u = src.flat_map_threads(f).actual_subscribe(probe); let u2 = u.clone(); closed_q = Some(Box::new(move || u2.is_closed())); unsub = Some(Box::new(move || u.unsubscribe())); }
        } else {
          { let u = src.concat_map_threads(f).actual_subscribe(probe); let u2 = u.clone(); closed_q = Some(Box::new(move || u2.is_closed())); unsub = Some(Box::new(move || u.unsubscribe())); }
        }
      }
      _ => {
        let src: rxrust::ops::box_it::BoxOpThreads<ObsT, Val> = observable::create(|s: OuterHandleT| OUTER_T.with(|o| *o.borrow_mut() = Some(s))).box_it();
        match op {
          FlatOp::MergeAll(n) => {
            { let u = src.merge_all_threads(n).actual_subscribe(probe); let u2 = u.clone(); closed_q = Some(Box::new(move || u2.is_closed())); unsub = Some(Box::new(move || u.unsubscribe())); }
          }
          FlatOp::ConcatAll => {
            { let u = src.concat_all_threads().actual_subscribe(probe); let u2 = u.clone(); closed_q = Some(Box::new(move || u2.is_closed())); unsub = Some(Box::new(move || u.unsubscribe())); }
          }
          _ => {
            { let u = src.flatten_threads().actual_subscribe(probe); let u2 = u.clone(); closed_q = Some(Box::new(move || u2.is_closed())); unsub = Some(Box::new(move || u.unsubscribe())); }
          }
        }
      }
    }
    drive_c05(op, &specs, nsteps, limit, probe, true, |_k| unreachable!(), |k| inner_obs_t(k, &specs[k]), if cut { unsub.take() } else { None }, closed_q.take());
  }
}

/// Drives outer and inner events and mirrors them in the queue model.
fn drive_c05(op: FlatOp, specs: &[InnerSpec], nsteps: usize, limit: usize, probe: Probe, threads_form: bool, mk: impl Fn(usize) -> Obs, mk_t: impl Fn(usize) -> ObsT, cut: Option<Box<dyn FnOnce()>>, closed_q: Option<Box<dyn Fn() -> bool>>) {
  let cfg = format!("{:?}", op).chars().filter(|c| c.is_ascii_alphabetic()).collect::<String>();
  drive_c05_x(op, specs, nsteps, limit, probe, threads_form, mk, mk_t, cut, closed_q, false, &cfg)
}

fn drive_c05_x(op: FlatOp, specs: &[InnerSpec], nsteps: usize, limit: usize, probe: Probe, threads_form: bool, mk: impl Fn(usize) -> Obs, mk_t: impl Fn(usize) -> ObsT, mut cut: Option<Box<dyn FnOnce()>>, closed_q: Option<Box<dyn Fn() -> bool>>, sync_outer: bool, cfg: &str) {
  let cutting = cut.is_some();
  let cut_step = if cutting { e::choose(nsteps as u32) as usize } else { usize::MAX };
  let via_map = matches!(op, FlatOp::FlatMap | FlatOp::ConcatMap);
  // model state
  let mut want: Vec<Ev> = vec![];
  let mut out_done = false;
  let mut active: Vec<usize> = vec![]; // hot inners currently subscribed
  let mut queue: std::collections::VecDeque<usize> = Default::default();
  let mut outer_done = false;
  let mut emitted = 0usize; // inners handed out by the outer so far
  let mut hot_done = vec![false; specs.len()];
  // start an inner in the model; returns false if output terminated
  fn start(k: usize, specs: &[InnerSpec], want: &mut Vec<Ev>, active: &mut Vec<usize>, out_done: &mut bool) {
    match &specs[k] {
      InnerSpec::Hot | InnerSpec::HotSubj => active.push(k),
      InnerSpec::Cold(s) => {
        for v in &s.items {
          want.push(Ev::Next(v.clone()));
        }
        if let Tm::Error(x) = &s.term {
          want.push(Ev::Err(x.clone()));
          *out_done = true;
        }
        // a cold inner that completes frees its slot at once; one that never terminates keeps it
        if matches!(s.term, Tm::None) {
          active.push(k);
        }
      }
    }
  }
  if sync_outer {
    // the from_iter outer handed out every inner and completed during subscribe()
    for k in 0..specs.len() {
      if !out_done {
        if active.len() < limit {
          start(k, specs, &mut want, &mut active, &mut out_done);
        } else {
          queue.push_back(k);
        }
      }
    }
    emitted = specs.len();
    outer_done = true;
    if !out_done && active.is_empty() && queue.is_empty() {
      want.push(Ev::Complete);
      out_done = true;
    }
  }
  'steps: for step in 0..nsteps {
    if step == cut_step {
      if let Some(u) = cut.take() {
        e::note("unsubscribe()".to_string());
        u();
        probe.forbid("delivery-after-unsubscribe/flatten");
        // every hot inner that was subscribed has been finalized exactly once by now (by its own terminal or by
        // this unsubscribe)
        for k in 0..specs.len() {
          if matches!(specs[k], InnerSpec::Hot) && world::counter(100 + k) >= 1 && world::counter(300 + k) != 1 {
            e::fail("flatten/inner-finalizer-after-unsubscribe", || format!("inner {} was subscribed {} time(s); after unsubscribe() of the flattened stream its finalizer has run {} time(s)", k, world::counter(100 + k), world::counter(300 + k)));
          }
        }
        if let Some(q) = &closed_q {
          if !q() {
            e::fail("flatten/handle-open-after-unsubscribe", || "a remaining handle of the composite reports open after unsubscribe()".to_string());
          }
        }
      }
    }
    if cutting {
      if let Some(q) = &closed_q {
        if q() {
          probe.forbid("delivery-after-is_closed/flatten");
        }
      }
    }
    // choices: 0 outer emits next inner, 1 outer completes, 2 outer errors, 3.. event on a subscribed hot inner
    let hot_live: Vec<usize> = active.iter().cloned().filter(|k| specs[*k].is_hot() && !hot_done[*k]).collect();
    let c = e::choose(3 + hot_live.len() as u32 * 3);
    if c == 0 {
      if emitted >= specs.len() || outer_done {
        break 'steps;
      }
      let k = emitted;
      emitted += 1;
      e::note(format!("outer.next(inner{})", k));
      // model first (the real call may run nested inner code)
      if !out_done {
        if active.len() < limit {
          start(k, specs, &mut want, &mut active, &mut out_done);
        } else {
          queue.push_back(k);
        }
      }
      if via_map {
        if threads_form {
          let mut h = cat::handle_t(0);
          h.next(Val::c(k as i64));
        } else {
          let mut h = cat::handle(0);
          h.next(Val::c(k as i64));
        }
      } else if threads_form {
        let mut h = OUTER_T.with(|o| o.borrow().clone()).unwrap();
        h.next(mk_t(k));
      } else {
        let mut h = OUTER.with(|o| o.borrow().clone()).unwrap();
        h.next(mk(k));
      }
    } else if c == 1 || c == 2 {
      if outer_done {
        break 'steps;
      }
      outer_done = true;
      let x = Val::var();
      e::note(if c == 1 { "outer.complete".to_string() } else { format!("outer.error({})", x.show()) });
      if !out_done {
        if c == 2 {
          want.push(Ev::Err(x.clone()));
          out_done = true;
        } else if active.is_empty() && queue.is_empty() {
          want.push(Ev::Complete);
          out_done = true;
        }
      }
      macro_rules! term {
        ($h:expr) => {{
          let h = $h;
          if c == 1 {
            h.complete()
          } else {
            h.error(x.clone())
          }
        }};
      }
      if via_map {
        if threads_form {
          term!(cat::handle_t(0))
        } else {
          term!(cat::handle(0))
        }
      } else if threads_form {
        term!(OUTER_T.with(|o| o.borrow().clone()).unwrap())
      } else {
        term!(OUTER.with(|o| o.borrow().clone()).unwrap())
      }
    } else {
      let j = (c - 3) as usize;
      let k = hot_live[j / 3];
      let ev = match j % 3 {
        0 => Ev::Next(Val::var()),
        1 => Ev::Complete,
        _ => Ev::Err(Val::var()),
      };
      e::note(format!("inner{}.{}", k, world::show_ev(&ev)));
      // model
      match &ev {
        Ev::Next(v) => {
          if !out_done {
            want.push(Ev::Next(v.clone()))
          }
        }
        Ev::Err(x) => {
          hot_done[k] = true;
          active.retain(|a| *a != k);
          if !out_done {
            want.push(Ev::Err(x.clone()));
            out_done = true;
          }
        }
        Ev::Complete => {
          hot_done[k] = true;
          active.retain(|a| *a != k);
          if !out_done {
            // free slot: start queued inners (cold ones run to completion and free it again)
            while active.len() < limit && !out_done {
              match queue.pop_front() {
                Some(q) => start(q, specs, &mut want, &mut active, &mut out_done),
                None => break,
              }
            }
            if !out_done && outer_done && active.is_empty() && queue.is_empty() {
              want.push(Ev::Complete);
              out_done = true;
            }
          }
        }
      }
      // the harness-side live counter: this hot inner leaves with its terminal
      if !matches!(ev, Ev::Next(_)) {
        let live = world::counter(0);
        world::set_counter(0, live - 1);
      }
      if threads_form {
        cat::feed_hot_t(200 + k, &ev);
      } else {
        cat::feed_hot(200 + k, &ev);
      }
    }
  }
  e::cfg_end(cfg);
  if cutting {
    e::cover("c02-flatten-path-complete");
    return;
  }
  // an early-finishing operator below: the first n items, then its own completion
  let cut_n = world::counter(3) as usize;
  if cut_n > 0 {
    let nitems = want.iter().filter(|x| matches!(x, Ev::Next(_))).count();
    let before_term = want.iter().take_while(|x| matches!(x, Ev::Next(_))).count();
    if before_term >= cut_n && nitems >= cut_n {
      want = want.into_iter().take(cut_n).collect();
      want.push(Ev::Complete);
    }
  }
  let got = probe.events();
  let key = format!("flatten/sequence/{}", match op { FlatOp::MergeAll(_) => "merge_all", FlatOp::ConcatAll => "concat_all", FlatOp::Flatten => "flatten", FlatOp::FlatMap => "flat_map", FlatOp::ConcatMap => "concat_map" });
  let detail = || format!("got [{}] expected [{}]", model::show_events(&got), model::show_events(&want));
  match model::compare_events(&got, &want) {
    Ok(t) => e::check(t, &key, detail),
    Err(why) => e::fail(&key, || format!("{} ; {}", why, detail())),
  }
  for k in 0..specs.len() {
    let n = world::counter(100 + k);
    if n > 1 {
      e::fail("flatten/inner-subscribed-twice", || format!("inner {} subscribed {} times", k, n));
    }
  }
  e::cover("c05-path-complete");
}

pub fn harnesses() -> Vec<HarnessDef> {
  let mut v = vec![];
  let mut add = |id: &'static str, props: Vec<&'static str>, about: &'static str, bounds: fn(bool) -> String, f: Box<dyn Fn(bool) + Send + Sync>, bq: u64, bt: u64, sampled: bool| {
    v.push(HarnessDef { id, props, about, bounds, f, budget_quick: bq, budget_thorough: bt, thorough_only: false, sampled });
  };
  fn b6(t: bool) -> String {
    format!("{} operations from subscribe / subscribe-with-nested-subscribe / unsubscribe-one / next / error / complete / retain / unsubscribe-subject over 3 subscribers, emission through the subject or a clone", if t { 7 } else { 5 })
  }
  add("c06_subject", vec!["C06", "C01", "C17"], "Subject: all operation histories vs the subscriber-set model; len/is_empty/is_finished after a terminal", b6, Box::new(|t| c06_history::<Subject<'static, Val, Val>>(if t { 7 } else { 5 })), 2_000_000, 30_000_000, true);
  add("c06_subject_threads", vec!["C06", "C17"], "SubjectThreads, same histories (single logical thread)", b6, Box::new(|t| c06_history::<SubjectThreads<Val, Val>>(if t { 7 } else { 5 })), 2_000_000, 30_000_000, true);
  add("c06_mutref_item", vec!["C06"], "MutRefItemSubject", b6, Box::new(|t| c06_history::<MutRefItemSubject<'static, Val, Val>>(if t { 6 } else { 5 })), 2_000_000, 10_000_000, true);
  add("c06_mutref_err", vec!["C06"], "MutRefErrSubject", b6, Box::new(|t| c06_history::<MutRefErrSubject<'static, Val, Val>>(if t { 6 } else { 5 })), 2_000_000, 10_000_000, true);
  add("c06_mutref_item_err", vec!["C06"], "MutRefItemErrSubject", b6, Box::new(|t| c06_history::<MutRefItemErrSubject<'static, Val, Val>>(if t { 6 } else { 5 })), 2_000_000, 10_000_000, true);
  fn b12(t: bool) -> String {
    format!("{} operations from next / next_by / clone / subscribe / unsubscribe / peek / complete / error over <=3 clones and 3 subscribers; symbolic values", if t { 7 } else { 5 })
  }
  add("c12_behavior", vec!["C12"], "BehaviorSubject over Subject vs the latest-value model; peek() decided by z3", b12, Box::new(|t| c12_history::<BehaviorSubject<Val, Subject<'static, Val, Val>>>(if t { 7 } else { 5 })), 3_000_000, 40_000_000, true);
  add("c12_behavior_threads", vec!["C12"], "BehaviorSubject over SubjectThreads (single logical thread)", b12, Box::new(|t| c12_history::<BehaviorSubject<Val, SubjectThreads<Val, Val>>>(if t { 7 } else { 5 })), 3_000_000, 40_000_000, true);
  fn b11(t: bool) -> String {
    format!("{} operations from subscribe / unsubscribe / source event / connect over 3 subscribers; cold synchronous (<=2 items) and hot sources behind an upstream tap", if t { 7 } else { 6 })
  }
  add("c11_publish", vec!["C11", "C03"], "publish::<Subject>() + connect()", b11, Box::new(|t| c11_history(ShareKind::PublishLocal, if t { 7 } else { 6 })), 2_000_000, 30_000_000, true);
  add("c11_share", vec!["C11"], "share()", b11, Box::new(|t| c11_history(ShareKind::ShareLocal, if t { 7 } else { 6 })), 2_000_000, 30_000_000, true);
  add("c11_share_threads", vec!["C11"], "share_threads()", b11, Box::new(|t| c11_history(ShareKind::ShareThreads, if t { 7 } else { 6 })), 2_000_000, 30_000_000, true);
  fn b20(t: bool) -> String {
    format!("scripts of <= {} symbolic items x 3 terminals; key functions constant / identity / mod 2 / mod 3; hot and cold source; a probe per announced group, one on the outer stream, one on flat_map(groups)", if t { 5 } else { 4 })
  }
  add("c20_group_by", vec!["C20", "C01"], "group_by over Subject: group announcement order, per-group logs, terminal fan-out, flatten-back, all decided by z3 on symbolic keys", b20, Box::new(|t| c20_group_by(if t { 5 } else { 4 }, false)), 2_000_000, 30_000_000, false);
  add("c20_group_by_threads", vec!["C20"], "group_by over SubjectThreads", b20, Box::new(|t| c20_group_by(if t { 5 } else { 4 }, true)), 2_000_000, 30_000_000, false);
  fn b5(t: bool) -> String {
    format!("{} steps over the outer (emit next inner / complete / error) and every subscribed hot inner (item / complete / error); {} inners, each hot or cold-synchronous (<=2 symbolic items, complete or error); merge_all(1..=k+1), concat_all, flatten, flat_map, concat_map", if t { 7 } else { 6 }, 3)
  }
  add("c05_flatten", vec!["C05", "C01"], "flattening operators vs the queue model; live inner subscriptions counted against the limit; a RefCell double borrow is a caught panic", b5, Box::new(|t| c05_flatten(if t { 7 } else { 6 }, 3, false)), 3_000_000, 40_000_000, true);
  add("c02_flatten", vec!["C02", "C17", "C15"], "flattening operators: unsubscribe() at every step; afterwards no inner (running, queued-then-started, hot or periodic) may deliver", b5, Box::new(|t| c05_flatten_x(if t { 7 } else { 5 }, 3, false, true)), 3_000_000, 40_000_000, true);
  add("c02_flatten_threads", vec!["C02", "C17", "C15"], "same for the _threads forms", b5, Box::new(|t| c05_flatten_x(if t { 7 } else { 5 }, 3, true, true)), 3_000_000, 40_000_000, true);
  fn b5m(t: bool) -> String {
    format!("3 inner observables, each a create-handle, a Subject or cold (<=2 items); outer a create-handle or from_iter; output direct or multicast through a Subject, optionally cut by take(1|2); {} steps", if t { 6 } else { 4 })
  }
  add("c05_multicast", vec!["C05"], "flattening operators whose output is multicast through a Subject, with Subject inners and a synchronous outer, vs the queue model", b5m, Box::new(|t| c05_multicast(if t { 6 } else { 4 }, 3, false)), 4_000_000, 40_000_000, true);
  add("c05_multicast_threads", vec!["C05"], "same for the _threads forms", b5m, Box::new(|t| c05_multicast(if t { 6 } else { 4 }, 3, true)), 4_000_000, 40_000_000, true);
  add("c05_flatten_threads", vec!["C05"], "the _threads forms; re-acquisition of a held MutArc lock = would block forever", b5, Box::new(|t| c05_flatten(if t { 7 } else { 6 }, 3, true)), 3_000_000, 40_000_000, true);
  v
}
