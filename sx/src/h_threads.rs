//! Thread-safe variants under logical threads: C10 (serialised delivery, common
//! order, no deadlock / lost wake-up / panic), and the racing-thread parts of
//! C02, C06, C12, C15.
use crate::cat::{self, Op2};
use crate::engine as e;
use crate::harness::*;
use crate::model;
use crate::val::Val;
use crate::world::{self, Ev, Probe};
use rxrust::prelude::*;
use std::cell::RefCell;
use std::rc::Rc;

#[derive(Clone, Copy, PartialEq, Debug)]
pub enum Pipe {
  Subject,
  Merge,
  Zip,
  CombineLatest,
  TakeUntil,
  MergeAll,
  Share,
  ObserveOn,
  Delay,
  Finalize,
  Behavior,
  Debounce,
  ThrottleTail,
  /// flat_map over a hot inner and a synchronous `from_iter` inner (counting iterator)
  FlatMapIter,
  /// concat_all_threads: inner 0 running, the outer may hand over inner 1 / complete
  ConcatAll,
  /// concat_all_threads with inner 0 running and inner 1 already waiting in the queue
  ConcatQueued,
  WithLatestFrom,
  SkipUntil,
  Sample,
  /// buffer_with_time / buffer_with_count_and_time / sample(interval) / throttle(all): the pool's worker (clock tick +
  /// poll) is one of the operations a thread can perform, so a timer callback races the source
  BufferTime,
  BufferCountTime,
  SampleTick,
  ThrottleAll,
  ThrottleLead,
  ThrottleTailTick,
  DebounceTick,
  /// observe_on_threads / delay_threads / delay_subscription with the pool worker's tick as a thread operation
  ObserveOnTick,
  DelayTick,
  /// last(): the item and the completion both travel inside the source's terminal
  Last,
  /// debounce with an empty window: the timer task can run as soon as it is scheduled, i.e. while next() is still running
  DebounceZero,
  /// two sources merged, then handed to the pool: a.merge_threads(b).observe_on_threads(..) / .delay_threads(..)
  MergeObserveOnTick,
  MergeDelayTick,
}

pub const MOVE_PIPES: &[Pipe] = &[Pipe::ObserveOnTick, Pipe::DelayTick];
pub const MERGE_MOVE_PIPES: &[Pipe] = &[Pipe::MergeObserveOnTick, Pipe::MergeDelayTick];

pub const RATE_PIPES: &[Pipe] = &[Pipe::BufferTime, Pipe::BufferCountTime, Pipe::SampleTick, Pipe::ThrottleAll, Pipe::ThrottleLead, Pipe::ThrottleTailTick, Pipe::DebounceTick, Pipe::DebounceZero];

thread_local! {
  /// source events in the order in which the feeding calls completed
  static EMITTED: RefCell<Vec<(usize, Ev)>> = RefCell::new(vec![]);
}

/// all symbolic values of a two-thread script are pairwise different
fn script_values_distinct(script: &[Vec<TOp>]) -> u32 {
  let mut vals: Vec<Val> = vec![];
  for o in script.iter().flatten() {
    if let TOp::Feed(_, Ev::Next(v)) | TOp::Feed(_, Ev::Err(v)) = o {
      vals.push(v.clone());
    }
  }
  let mut t = crate::val::tt();
  for i in 0..vals.len() {
    for j in i + 1..vals.len() {
      t = crate::val::b_and(t, crate::val::b_not(vals[i].eq_t(&vals[j])));
    }
  }
  t
}

/// The order-insensitive part of C07 / C09 for a single-input pipeline, used where whole-operation serialisability
/// is too coarse (three or more operations per thread: a timer firing *during* a next() call has no serial
/// counterpart although nothing is lost, duplicated or reordered): the output's items, buffers flattened, are
/// source items in emission order, each at most once; a terminal is the source's; after a completion nothing the
/// operator owes is missing (buffers and the scheduler-moving operators: every item; debounce and trailing
/// throttle: the last item).
fn generic_rate_ok(p: Pipe, got: &[Ev], emitted: &[(usize, Ev)], cut: bool) -> bool {
  let mut src_items: Vec<Val> = vec![];
  let mut src_term: Option<Ev> = None;
  for (_, ev) in emitted {
    match ev {
      Ev::Next(v) if src_term.is_none() => src_items.push(v.clone()),
      Ev::Next(_) => {}
      t => {
        if src_term.is_none() {
          src_term = Some(t.clone())
        }
      }
    }
  }
  let mut out_items: Vec<Val> = vec![];
  let mut out_term: Option<Ev> = None;
  for g in got {
    match g {
      Ev::Next(Val::L(l)) if out_term.is_none() => {
        if l.is_empty() {
          return false;
        }
        out_items.extend(l.iter().cloned())
      }
      Ev::Next(v) if out_term.is_none() => out_items.push(v.clone()),
      Ev::Next(_) => return false,
      t => {
        if out_term.is_some() {
          return false;
        }
        out_term = Some(t.clone())
      }
    }
  }
  // subsequence in order, each source item used at most once
  let mut pos = 0;
  let mut used: Vec<usize> = vec![];
  for o in &out_items {
    let mut found = false;
    while pos < src_items.len() {
      let t = o.eq_t(&src_items[pos]);
      pos += 1;
      if e::valid(t) {
        used.push(pos - 1);
        found = true;
        break;
      }
    }
    if !found {
      return false;
    }
  }
  match (&out_term, &src_term) {
    (None, _) => {}
    (Some(Ev::Complete), Some(Ev::Complete)) => {}
    (Some(Ev::Err(a)), Some(Ev::Err(b))) => {
      if !e::valid(a.eq_t(b)) {
        return false;
      }
    }
    _ => return false,
  }
  if !cut && matches!(src_term, Some(Ev::Complete)) && matches!(out_term, Some(Ev::Complete)) {
    let all = matches!(p, Pipe::BufferTime | Pipe::BufferCountTime | Pipe::ObserveOnTick | Pipe::DelayTick);
    let last = matches!(p, Pipe::DebounceTick | Pipe::DebounceZero | Pipe::ThrottleTailTick | Pipe::ThrottleAll);
    if all && used.len() != src_items.len() {
      return false;
    }
    if last && !src_items.is_empty() && used.last() != Some(&(src_items.len() - 1)) {
      return false;
    }
  }
  true
}

thread_local! {
  /// is_closed() of the handle the last `build` returned (None once it has been consumed by unsubscribe())
  static CLOSED_Q: RefCell<Option<Rc<dyn Fn() -> Option<bool>>>> = RefCell::new(None);
}

pub const C17_PIPES: &[Pipe] = &[Pipe::Last, Pipe::Merge, Pipe::TakeUntil, Pipe::MergeAll, Pipe::ObserveOn, Pipe::Delay, Pipe::Debounce, Pipe::ThrottleTail, Pipe::Finalize, Pipe::ConcatAll];

pub const C10_PIPES: &[Pipe] = &[Pipe::Subject, Pipe::Merge, Pipe::Zip, Pipe::CombineLatest, Pipe::TakeUntil, Pipe::MergeAll, Pipe::ConcatAll, Pipe::Share, Pipe::ObserveOn, Pipe::Delay];

/// What the logical threads can do to a pipeline.
pub struct Rig {
  /// feed event to input i
  pub feed: Rc<dyn Fn(usize, &Ev)>,
  pub ninputs: usize,
  pub unsub: Rc<RefCell<Option<Box<dyn FnOnce()>>>>,
  /// subscribe one more probe (subjects / share only)
  pub subscribe: Option<Rc<dyn Fn(Probe)>>,
  pub probes: Vec<Probe>,
  pub drain: Rc<dyn Fn()>,
  pub peek: Option<Rc<dyn Fn() -> Val>>,
  /// further named operations a thread may perform (subject-level unsubscribe, len(), executor steps ...)
  pub extra: Vec<(&'static str, Rc<dyn Fn()>)>,
}

pub fn build(p: Pipe) -> Rig {
  let probe = fresh_probe();
  let unsub: Rc<RefCell<Option<Box<dyn FnOnce()>>>> = Rc::new(RefCell::new(None));
  let feed_tags = |tags: Vec<usize>| -> Rc<dyn Fn(usize, &Ev)> {
    Rc::new(move |i: usize, ev: &Ev| {
      if let Some(mut h) = cat::handle_t_nth(tags[i], 0) {
        feed_t(&mut h, ev);
      }
    })
  };
  let nodrain: Rc<dyn Fn()> = Rc::new(|| {});
  let sched_drain: Rc<dyn Fn()> = Rc::new(|| {
    for _ in 0..6 {
      world::run_fifo_until_stalled(64);
      match world::next_deadline() {
        Some(t) => {
          let now = world::now();
          world::advance(t - now)
        }
        None => break,
      }
    }
  });
  macro_rules! keep {
    ($u:expr) => {{
      // the handle stays where both unsubscribe() and an is_closed() sampler (same logical thread) can reach it
      let cell = Rc::new(RefCell::new(Some($u)));
      let c2 = cell.clone();
      CLOSED_Q.with(|q| *q.borrow_mut() = Some(Rc::new(move || c2.try_borrow().ok().and_then(|c| c.as_ref().map(|u| u.is_closed())))));
      *unsub.borrow_mut() = Some(Box::new(move || {
        let u = cell.borrow_mut().take();
        if let Some(u) = u {
          u.unsubscribe()
        }
      }));
    }};
  }
  match p {
    Pipe::Subject => {
      let subj: SubjectThreads<Val, Val> = SubjectThreads::default();
      let p2 = fresh_probe();
      keep!(subj.clone().actual_subscribe(probe));
      let _u2 = subj.clone().actual_subscribe(p2);
      let s1 = subj.clone();
      let s2 = subj.clone();
      let (s3, s4, s5) = (subj.clone(), subj.clone(), subj.clone());
      let p0 = probe;
      let p1 = p2;
      let subject_extras: Vec<(&'static str, Rc<dyn Fn()>)> = vec![
        ("subject.unsubscribe()", Rc::new(move || {
          s3.clone().unsubscribe();
          p0.forbid("delivery-after-subject-unsubscribe");
          p1.forbid("delivery-after-subject-unsubscribe");
        })),
        ("subject.len()/is_empty()", Rc::new(move || {
          let _ = s4.len();
          let _ = s4.is_empty();
        })),
        ("subject.retain()", Rc::new(move || {
          let mut s = s5.clone();
          s.retain();
        })),
      ];
      Rig {
        feed: Rc::new(move |_i, ev| {
          let mut s = s1.clone();
          match ev {
            Ev::Next(v) => s.next(v.clone()),
            Ev::Err(x) => s.error(x.clone()),
            Ev::Complete => s.complete(),
          }
        }),
        ninputs: 1,
        unsub,
        subscribe: Some(Rc::new(move |p: Probe| {
          let _ = s2.clone().actual_subscribe(p);
        })),
        probes: vec![probe, p2],
        drain: nodrain,
        peek: None,
        extra: subject_extras,
      }
    }
    Pipe::Behavior => {
      let b: BehaviorSubject<Val, SubjectThreads<Val, Val>> = BehaviorSubject::new(Val::c(0));
      let p2 = fresh_probe();
      keep!(b.clone().actual_subscribe(probe));
      let _u2 = b.clone().actual_subscribe(p2);
      let (b1, b2, b3) = (b.clone(), b.clone(), b.clone());
      Rig {
        feed: Rc::new(move |_i, ev| {
          let mut s = b1.clone();
          match ev {
            Ev::Next(v) => Observer::<Val, Val>::next(&mut s, v.clone()),
            Ev::Err(x) => Observer::<Val, Val>::error(s, x.clone()),
            Ev::Complete => Observer::<Val, Val>::complete(s),
          }
        }),
        ninputs: 1,
        unsub,
        subscribe: Some(Rc::new(move |p: Probe| {
          let _ = b2.clone().actual_subscribe(p);
        })),
        probes: vec![probe, p2],
        drain: nodrain,
        peek: Some(Rc::new(move || Behavior::<Val, Val>::peek(&b3))),
        extra: vec![],
      }
    }
    Pipe::Merge | Pipe::Zip | Pipe::CombineLatest | Pipe::TakeUntil | Pipe::WithLatestFrom | Pipe::SkipUntil | Pipe::Sample => {
      let op = match p {
        Pipe::Merge => Op2::Merge,
        Pipe::Zip => Op2::Zip,
        Pipe::CombineLatest => Op2::CombineLatest,
        Pipe::WithLatestFrom => Op2::WithLatestFrom,
        Pipe::SkipUntil => Op2::SkipUntil,
        Pipe::Sample => Op2::Sample,
        _ => Op2::TakeUntil,
      };
      keep!(subscribe_t(cat::build2_t(op, cat::hot_tagged_t(0), cat::hot_tagged_t(1)), probe));
      Rig { feed: feed_tags(vec![0, 1]), ninputs: 2, unsub, subscribe: None, probes: vec![probe], drain: nodrain, peek: None, extra: vec![] }
    }
    Pipe::MergeAll => {
      // outer emits two hot inners up front; the threads then drive the inners
      let src = cat::hot_tagged_t(9);
      keep!(src.flat_map_threads(|v: Val| cat::hot_tagged_t(v.sym().konst().unwrap() as usize)).actual_subscribe(probe));
      let mut h = cat::handle_t(9);
      h.next(Val::c(0));
      h.next(Val::c(1));
      Rig { feed: feed_tags(vec![0, 1]), ninputs: 2, unsub, subscribe: None, probes: vec![probe], drain: nodrain, peek: None, extra: vec![] }
    }
    Pipe::Share => {
      let shared = cat::hot_tagged_t(0).share_threads();
      let p2 = fresh_probe();
      keep!(shared.clone().actual_subscribe(probe));
      let _u2 = shared.clone().actual_subscribe(p2);
      let s2 = shared.clone();
      Rig {
        feed: feed_tags(vec![0]),
        ninputs: 1,
        unsub,
        subscribe: Some(Rc::new(move |p: Probe| {
          let _ = s2.clone().actual_subscribe(p);
        })),
        probes: vec![probe, p2],
        drain: nodrain,
        peek: None,
        extra: vec![],
      }
    }
    Pipe::ObserveOn => {
      keep!(cat::hot_tagged_t(0).observe_on_threads(world::any_sched()).actual_subscribe(probe));
      Rig { feed: feed_tags(vec![0]), ninputs: 1, unsub, subscribe: None, probes: vec![probe], drain: sched_drain, peek: None, extra: vec![] }
    }
    Pipe::Delay => {
      keep!(cat::hot_tagged_t(0).delay_threads(world::units(1), world::any_sched()).actual_subscribe(probe));
      Rig { feed: feed_tags(vec![0]), ninputs: 1, unsub, subscribe: None, probes: vec![probe], drain: sched_drain, peek: None, extra: vec![] }
    }
    Pipe::MergeObserveOnTick | Pipe::MergeDelayTick => {
      let sd = world::any_sched();
      let merged = cat::build2_t(Op2::Merge, cat::hot_tagged_t(0), cat::hot_tagged_t(1));
      if p == Pipe::MergeObserveOnTick {
        keep!(merged.observe_on_threads(sd).actual_subscribe(probe));
      } else {
        keep!(merged.delay_threads(world::units(1), sd).actual_subscribe(probe));
      }
      let adv: Rc<dyn Fn()> = Rc::new(|| {
        world::advance(1);
      });
      let poll1: Rc<dyn Fn()> = Rc::new(|| {
        world::run_fifo_bounded(1);
      });
      Rig { feed: feed_tags(vec![0, 1]), ninputs: 2, unsub, subscribe: None, probes: vec![probe], drain: sched_drain, peek: None, extra: vec![("worker: clock +1", adv), ("worker: poll one ready task", poll1)] }
    }
    Pipe::Last => {
      keep!(cat::hot_tagged_t(0).last().actual_subscribe(probe));
      Rig { feed: feed_tags(vec![0]), ninputs: 1, unsub, subscribe: None, probes: vec![probe], drain: nodrain, peek: None, extra: vec![] }
    }
    Pipe::Debounce => {
      keep!(cat::hot_tagged_t(0).debounce(world::units(1), world::any_sched()).actual_subscribe(probe));
      Rig { feed: feed_tags(vec![0]), ninputs: 1, unsub, subscribe: None, probes: vec![probe], drain: sched_drain, peek: None, extra: vec![] }
    }
    Pipe::BufferTime | Pipe::BufferCountTime | Pipe::SampleTick | Pipe::ThrottleAll | Pipe::ThrottleLead | Pipe::ThrottleTailTick | Pipe::DebounceTick | Pipe::DebounceZero | Pipe::ObserveOnTick | Pipe::DelayTick => {
      let sd = world::any_sched();
      let src = cat::hot_tagged_t(0);
      match p {
        Pipe::BufferTime => keep!(src.buffer_with_time(world::units(1), sd).map(|v: Vec<Val>| Val::L(v)).actual_subscribe(probe)),
        Pipe::BufferCountTime => keep!(src.buffer_with_count_and_time(2, world::units(1), sd).map(|v: Vec<Val>| Val::L(v)).actual_subscribe(probe)),
        Pipe::SampleTick => keep!(src.sample_threads(observable::interval(world::units(1), sd).map(|n: usize| Val::c(n as i64)).on_error_map(|_: std::convert::Infallible| Val::c(0))).actual_subscribe(probe)),
        Pipe::DebounceTick => keep!(src.debounce(world::units(1), sd).actual_subscribe(probe)),
        Pipe::DebounceZero => keep!(src.debounce(world::units(0), sd).actual_subscribe(probe)),
        Pipe::ObserveOnTick => keep!(src.observe_on_threads(sd).actual_subscribe(probe)),
        Pipe::DelayTick => keep!(src.delay_threads(world::units(1), sd).actual_subscribe(probe)),
        Pipe::ThrottleLead => keep!(src.throttle(|_v: &Val| world::units(1), rxrust::ops::throttle::ThrottleEdge::leading(), sd).actual_subscribe(probe)),
        Pipe::ThrottleTailTick => keep!(src.throttle(|_v: &Val| world::units(1), rxrust::ops::throttle::ThrottleEdge::tailing(), sd).actual_subscribe(probe)),
        _ => keep!(src.throttle(|_v: &Val| world::units(1), rxrust::ops::throttle::ThrottleEdge::all(), sd).actual_subscribe(probe)),
      }
      // the worker's steps are separate operations: the clock moves, or one ready task is polled. (A whole
      // "advance and poll everything" step is not atomic in any real pool: another thread's event may fall between
      // two task polls, so no serial order of whole steps would reproduce a perfectly legitimate outcome.)
      let adv: Rc<dyn Fn()> = Rc::new(|| {
        world::advance(1);
      });
      let poll1: Rc<dyn Fn()> = Rc::new(|| {
        world::run_fifo_bounded(1);
      });
      Rig { feed: feed_tags(vec![0]), ninputs: 1, unsub, subscribe: None, probes: vec![probe], drain: sched_drain, peek: None, extra: vec![("worker: clock +1", adv), ("worker: poll one ready task", poll1)] }
    }
    Pipe::ThrottleTail => {
      keep!(cat::hot_tagged_t(0).throttle(|_v: &Val| world::units(1), rxrust::ops::throttle::ThrottleEdge::tailing(), world::any_sched()).actual_subscribe(probe));
      Rig { feed: feed_tags(vec![0]), ninputs: 1, unsub, subscribe: None, probes: vec![probe], drain: sched_drain, peek: None, extra: vec![] }
    }
    Pipe::FlatMapIter => {
      // outer handle 9 emits inner 0 (hot) first; a thread later emits inner 1 = from_iter over a counting iterator
      let src = cat::hot_tagged_t(9);
      keep!(src
        .flat_map_threads(|v: Val| -> cat::ObsT {
          if v.sym().konst() == Some(0) {
            cat::hot_tagged_t(0)
          } else {
            observable::from_iter((0..6).map(|i| {
              let n = world::bump(7);
              // remember how far the iterator had been pulled when the output terminated
              if world::counter(8) == 0 && world::w(|w| w.probes.first().map_or(false, |p| p.terminated)) {
                world::set_counter(8, n - 1);
              }
              Val::c(100 + i)
            }))
            .on_error_map(|_: std::convert::Infallible| Val::c(0))
            .box_it()
          }
        })
        .actual_subscribe(probe));
      let mut h = cat::handle_t(9);
      h.next(Val::c(0));
      let start_iter: Rc<dyn Fn()> = Rc::new(|| {
        let mut h = cat::handle_t(9);
        h.next(Val::c(1));
        // the synchronous inner has returned: how far did it pull after the output had terminated?
        let pulls = world::counter(7);
        let at_term = world::counter(8);
        if at_term > 0 && pulls > at_term + 1 {
          e::fail("flatten/iterator-inner-keeps-pulling-after-terminal", || format!("the output terminated when the iterator inner had been pulled {} times, yet it was pulled {} times in all: an unbounded iterator would never return", at_term, pulls));
        }
      });
      Rig { feed: feed_tags(vec![0]), ninputs: 1, unsub, subscribe: None, probes: vec![probe], drain: nodrain, peek: None, extra: vec![("outer emits the from_iter inner", start_iter)] }
    }
    Pipe::ConcatAll => {
      let src = cat::hot_tagged_t(9);
      keep!(src.map(|v: Val| cat::hot_tagged_t(v.sym().konst().unwrap() as usize)).concat_all_threads().actual_subscribe(probe));
      let mut h = cat::handle_t(9);
      h.next(Val::c(0));
      let hand_over: Rc<dyn Fn()> = Rc::new(|| {
        let mut h = cat::handle_t(9);
        h.next(Val::c(1));
      });
      let outer_done: Rc<dyn Fn()> = Rc::new(|| {
        cat::handle_t(9).complete();
      });
      Rig { feed: feed_tags(vec![0, 1]), ninputs: 2, unsub, subscribe: None, probes: vec![probe], drain: nodrain, peek: None, extra: vec![("outer.next(inner1)", hand_over), ("outer.complete()", outer_done)] }
    }
    Pipe::ConcatQueued => {
      let src = cat::hot_tagged_t(9);
      keep!(src.map(|v: Val| cat::hot_tagged_t(v.sym().konst().unwrap() as usize)).concat_all_threads().actual_subscribe(probe));
      let mut h = cat::handle_t(9);
      h.next(Val::c(0));
      h.next(Val::c(1)); // waits in the queue until inner 0 completes
      Rig { feed: feed_tags(vec![0, 1]), ninputs: 2, unsub, subscribe: None, probes: vec![probe], drain: nodrain, peek: None, extra: vec![] }
    }
    Pipe::Finalize => {
      let fin = move || {
        let n = world::bump(1);
        if n > 1 {
          e::fail("finalize_threads/ran-twice", || "finalizer invoked a second time (racing terminate / unsubscribe)".to_string());
        }
        // the finalizer is one of the subscriber's callbacks: it must not run while another
        // thread is still inside a notification of the same subscriber
        if world::w(|w| w.probes[probe.id].in_callback) {
          e::fail("finalize_threads/ran-while-subscriber-callback-running", || "the finalizer ran on one thread while another thread was still delivering a notification to the same subscriber".to_string());
        }
        // the subscription is over: whatever another thread emits from now on must not arrive
        probe.forbid("finalize_threads/delivery-after-finalizer");
        world::maybe_preempt();
      };
      keep!(cat::hot_tagged_t(0).finalize_threads(fin).actual_subscribe(probe));
      Rig { feed: feed_tags(vec![0]), ninputs: 1, unsub, subscribe: None, probes: vec![probe], drain: nodrain, peek: None, extra: vec![] }
    }
  }
}

/// Pipelines whose deliveries happen inside scheduled tasks; one logical thread is the
/// pool's worker (it polls the tasks), the other one unsubscribes.
pub fn build_sched(which: u32) -> Rig {
  let probe = fresh_probe();
  let unsub: Rc<RefCell<Option<Box<dyn FnOnce()>>>> = Rc::new(RefCell::new(None));
  macro_rules! keep {
    ($u:expr) => {{
      let u = $u;
      *unsub.borrow_mut() = Some(Box::new(move || u.unsubscribe()));
    }};
  }
  let items = vec![Val::c(1), Val::c(2), Val::c(3)];
  let sd = world::any_sched();
  let ninputs;
  match which {
    0 => {
      keep!(cat::cold_t(items, model::Tm::Complete, 0).subscribe_on(sd).actual_subscribe(probe));
      ninputs = 0;
    }
    1 => {
      keep!(cat::cold_t(items, model::Tm::Complete, 0).delay_subscription(world::units(1), sd).actual_subscribe(probe));
      ninputs = 0;
    }
    2 => {
      keep!(cat::hot_tagged_t(0).observe_on_threads(sd).actual_subscribe(probe));
      let mut h = cat::handle_t(0);
      h.next(Val::c(1));
      h.next(Val::c(2));
      ninputs = 1;
    }
    3 => {
      keep!(cat::hot_tagged_t(0).delay_threads(world::units(1), sd).actual_subscribe(probe));
      let mut h = cat::handle_t(0);
      h.next(Val::c(1));
      h.next(Val::c(2));
      ninputs = 1;
    }
    4 => {
      keep!(observable::interval(world::units(1), sd).map(|n: usize| Val::c(n as i64)).actual_subscribe(probe));
      ninputs = 0;
    }
    _ => {
      // finalize_threads above a subscribe_on whose source does not terminate by itself: the pool's worker runs the
      // subscribing task while the other thread unsubscribes
      let fin = move || {
        let n = world::bump(1);
        if n > 1 {
          e::fail("finalize_threads/ran-twice", || "finalizer invoked a second time".to_string());
        }
        probe.forbid("finalize_threads/delivery-after-finalizer");
      };
      keep!(cat::hot_tagged_t(0).finalize_threads(fin).subscribe_on(sd).actual_subscribe(probe));
      ninputs = 0;
    }
  }
  let step: Rc<dyn Fn()> = Rc::new(|| {
    world::run_fifo_bounded(8);
  });
  let tick: Rc<dyn Fn()> = Rc::new(|| {
    world::advance(1);
    world::run_fifo_bounded(8);
  });
  Rig {
    feed: Rc::new(move |i: usize, ev: &Ev| {
      if let Some(mut h) = cat::handle_t_nth(i, 0) {
        feed_t(&mut h, ev);
      }
    }),
    ninputs,
    unsub,
    subscribe: None,
    probes: vec![probe],
    drain: Rc::new(|| {}),
    peek: None,
    extra: vec![("worker: poll ready tasks", step), ("worker: clock +1, poll ready tasks", tick)],
  }
}

fn c02_threads_sched() {
  c02_threads_sched_x(e::choose(5))
}

fn c02_threads_sched_x(which: u32) {
  let rig = build_sched(which);
  world::threads_enable(2, 3);
  let late: Rc<RefCell<Vec<Probe>>> = Rc::new(RefCell::new(vec![]));
  let name = ["subscribe_on(cold)", "delay_subscription(cold)", "observe_on_threads", "delay_threads", "interval", "finalize_threads.subscribe_on(hot)"][which as usize];
  let key: &'static str = crate::h_sched::leak_key(format!("callback-started-after-unsubscribe-returned/{}", name));
  // T0 = the pool's worker: three executor steps; T1 = the unsubscribing thread
  let mut desc = vec![];
  for _ in 0..3 {
    let i = e::choose(2) as usize;
    desc.push(format!("T0:{}", rig.extra[i].0));
    world::thread_push(0, make_closure(&rig, TOp::Extra(i), late.clone(), key));
  }
  desc.push("T1:unsubscribe()".to_string());
  world::thread_push(1, make_closure(&rig, TOp::Unsub, late.clone(), key));
  e::note(format!("{} ; {}", name, desc.join(" | ")));
  world::run_threads();
  world::hooks_disable();
  world::w(|w| w.threads.enabled = false);
  // afterwards: everything still scheduled is drained, nothing may reach the subscriber
  for _ in 0..4 {
    world::run_fifo_bounded(16);
    world::advance(1);
  }
  if which == 5 && cat::handle_t_nth(0, 0).is_some() && world::counter(1) != 1 {
    // the subscribing task did run (the source was subscribed, finalize with it) and the subscription was
    // unsubscribed: its finalizer ran exactly once. (Cancelled before the task ran, finalize never existed.)
    e::fail("finalize_threads/not-run-after-unsubscribe", || format!("unsubscribe() raced the pool worker that was running the subscribing task; afterwards the finalizer has run {} time(s)", world::counter(1)));
  }
  e::cover("c02-threads-sched-path-complete");
}

/// all interleavings of two sequences of lengths a and b (as thread indices)
fn interleavings(a: usize, b: usize) -> Vec<Vec<usize>> {
  fn go(a: usize, b: usize, cur: &mut Vec<usize>, out: &mut Vec<Vec<usize>>) {
    if a == 0 && b == 0 {
      out.push(cur.clone());
      return;
    }
    if a > 0 {
      cur.push(0);
      go(a - 1, b, cur, out);
      cur.pop();
    }
    if b > 0 {
      cur.push(1);
      go(a, b - 1, cur, out);
      cur.pop();
    }
  }
  let mut out = vec![];
  go(a, b, &mut vec![], &mut out);
  out
}

#[derive(Clone, Debug)]
enum TOp {
  Feed(usize, Ev),
  Unsub,
  Subscribe,
  Extra(usize),
  /// is_closed() on the returned handle; once it answered true nothing may be delivered any more (C17)
  IsClosed,
}

fn draw_op(rig: &Rig, allow_unsub: bool) -> TOp {
  draw_op_x(rig, allow_unsub, true)
}

fn draw_op_x(rig: &Rig, allow_unsub: bool, allow_extra: bool) -> TOp {
  let extra = allow_unsub as u32 + rig.subscribe.is_some() as u32;
  let c = e::choose(rig.ninputs as u32 * 3 + extra + if allow_extra { rig.extra.len() as u32 } else { 0 });
  if c >= rig.ninputs as u32 * 3 + extra {
    return TOp::Extra((c - rig.ninputs as u32 * 3 - extra) as usize);
  }
  if c < rig.ninputs as u32 * 3 {
    let i = (c / 3) as usize;
    let ev = match c % 3 {
      0 => Ev::Next(Val::var()),
      1 => Ev::Complete,
      _ => Ev::Err(Val::var()),
    };
    TOp::Feed(i, ev)
  } else if allow_unsub && c == rig.ninputs as u32 * 3 {
    TOp::Unsub
  } else {
    TOp::Subscribe
  }
}

fn show_op(o: &TOp) -> String {
  match o {
    TOp::Feed(i, ev) => format!("in{}.{}", i, world::show_ev(ev)),
    TOp::Unsub => "unsubscribe()".to_string(),
    TOp::Subscribe => "subscribe(new)".to_string(),
    TOp::Extra(i) => format!("extra#{}", i),
    TOp::IsClosed => "is_closed()".to_string(),
  }
}

fn make_closure(rig: &Rig, op: TOp, late: Rc<RefCell<Vec<Probe>>>, key_after_unsub: &'static str) -> world::Op {
  let feed = rig.feed.clone();
  let unsub = rig.unsub.clone();
  let subscribe = rig.subscribe.clone();
  let first = rig.probes[0];
  let extras: Vec<Rc<dyn Fn()>> = rig.extra.iter().map(|x| x.1.clone()).collect();
  let closed_q = CLOSED_Q.with(|q| q.borrow().clone());
  Box::new(move || {
    let kind = match &op {
      TOp::Feed(_, Ev::Next(_)) => 1,
      TOp::Extra(_) => 2,
      _ => 0,
    };
    world::with_op_kind(kind, || run_op(op, &feed, &unsub, &subscribe, first, &extras, &closed_q, &late, key_after_unsub));
  })
}

#[allow(clippy::too_many_arguments)]
fn run_op(op: TOp, feed: &Rc<dyn Fn(usize, &Ev)>, unsub: &Rc<RefCell<Option<Box<dyn FnOnce()>>>>, subscribe: &Option<Rc<dyn Fn(Probe)>>, first: Probe, extras: &[Rc<dyn Fn()>], closed_q: &Option<Rc<dyn Fn() -> Option<bool>>>, late: &Rc<RefCell<Vec<Probe>>>, key_after_unsub: &'static str) {
  match op {
    TOp::IsClosed => {
      if let Some(q) = &closed_q {
        if q() == Some(true) {
          e::note("  is_closed() -> true".to_string());
          first.forbid("delivery-after-is_closed/threads");
        }
      }
    }
    TOp::Extra(i) => (extras[i])(),
    TOp::Feed(i, ev) => {
      feed(i, &ev);
      // the source's cell serialises the calls: completion order is the order of emission
      EMITTED.with(|x| x.borrow_mut().push((i, ev.clone())));
    }
    TOp::Unsub => {
      let u = unsub.borrow_mut().take();
      if let Some(u) = u {
        // when the teardown began (counter 95): deliveries concurrent with it may or may not happen
        world::set_counter(95, world::tick() as i64);
        u();
        // from the moment unsubscribe() has returned, no callback may start
        first.forbid(key_after_unsub);
      }
    }
    TOp::Subscribe => {
      if let Some(s) = &subscribe {
        let p = fresh_probe();
        late.borrow_mut().push(p);
        s(p);
      }
    }
  }
}

/// Two logical threads, `nops` operations each, nested pre-emption at every lock
/// acquisition, inside callbacks and at yield points.
fn c10_preempt(pipes: &[Pipe], nops: usize, max_preempt: u32) {
  c10_preempt_x(pipes, nops, max_preempt, false)
}

fn c10_preempt_x(pipes: &[Pipe], nops: usize, max_preempt: u32, sample_closed: bool) {
  c10_preempt_xx(pipes, nops, nops, max_preempt, sample_closed)
}

/// `nops0` operations for T0 (the worker where there is one), `nops` for T1
fn c10_preempt_xx(pipes: &[Pipe], nops0: usize, nops: usize, max_preempt: u32, sample_closed: bool) {
  EMITTED.with(|x| x.borrow_mut().clear());
  let p = pipes[e::choose(pipes.len() as u32) as usize];
  let rig = build(p);
  e::cfg_begin(&format!("{:?}", p));
  world::threads_enable(2, max_preempt);
  let late: Rc<RefCell<Vec<Probe>>> = Rc::new(RefCell::new(vec![]));
  let key: &'static str = crate::h_sched::leak_key(format!("callback-started-after-unsubscribe-returned/{:?}", p));
  let mut desc = vec![];
  let mut script: Vec<Vec<TOp>> = vec![vec![], vec![]];
  for t in 0..2 {
    for _ in 0..(if t == 0 { nops0 } else { nops }) {
      // the pool has one worker: only T0 ticks the clock and polls (two threads ticking would make "advance, then
      // poll" non-atomic in a way no serial order of whole ticks reproduces: a delayed poll is not a defect)
      let one_worker = RATE_PIPES.contains(&p) || MOVE_PIPES.contains(&p) || MERGE_MOVE_PIPES.contains(&p);
      // T1 may ask the handle is_closed() instead of drawing another operation
      let op = if sample_closed && t == 1 && e::choose(3) == 0 { TOp::IsClosed } else { draw_op_x(&rig, t == 1, !(one_worker && t == 1)) };
      desc.push(format!("T{}:{}", t, show_op(&op)));
      script[t].push(op.clone());
      world::thread_push(t, make_closure(&rig, op, late.clone(), key));
    }
  }
  e::note(format!("{:?}_threads ; {}", p, desc.join(" | ")));
  if MOVE_PIPES.contains(&p) || MERGE_MOVE_PIPES.contains(&p) || matches!(p, Pipe::ObserveOn | Pipe::Delay) {
    world::DECOUPLED.with(|d| d.set(true));
    if world::DEADLOCK_CTX.with(|c| c.borrow().is_empty()) {
      world::set_deadlock_ctx(&format!("/{:?}", p));
    }
  }
  let with_query = script.iter().flatten().any(|o| matches!(o, TOp::IsClosed));
  if with_query {
    world::set_deadlock_ctx(&format!("/{:?}+is_closed", p));
  }
  world::run_threads();
  if let Some((a, b)) = world::lock_order_cycle() {
    e::fail(&format!("lock-order-cycle/{:?}{}", p, if with_query { "+is_closed" } else { "" }), || format!("one thread acquires lock #{} while holding #{}, another acquires #{} while holding #{}: they can deadlock", b, a, a, b));
  }
  world::hooks_disable();
  world::w(|w| w.threads.enabled = false);
  (rig.drain)();
  // all subscribers of one subject observe concurrent emissions in one common order
  if matches!(p, Pipe::Subject | Pipe::Share | Pipe::Behavior) {
    let a: Vec<Ev> = rig.probes[0].events();
    let b: Vec<Ev> = rig.probes[1].events();
    // s0 may have been unsubscribed: compare the common prefix of item sequences
    let ia: Vec<&Ev> = a.iter().filter(|x| matches!(x, Ev::Next(_))).collect();
    let ib: Vec<&Ev> = b.iter().filter(|x| matches!(x, Ev::Next(_))).collect();
    let n = ia.len().min(ib.len());
    let mut t = crate::val::tt();
    for k in 0..n {
      if let (Ev::Next(x), Ev::Next(y)) = (ia[k], ib[k]) {
        t = crate::val::b_and(t, x.eq_t(y));
      }
    }
    // with symbolic distinct values a swapped order is a satisfiable difference
    e::check(t, &format!("common-order/{:?}", p), || format!("subscriber 0 saw [{}], subscriber 1 saw [{}]", model::show_events(&a), model::show_events(&b)));
  }
  if let Some(peek) = &rig.peek {
    // the most recent value is the one delivered last in the common order
    let b = rig.probes[1].events();
    if let Some(Ev::Next(last)) = b.iter().filter(|x| matches!(x, Ev::Next(_))).last() {
      let v = peek();
      if !rig.probes[1].terminated() {
        e::check(v.eq_t(last), "behavior_threads/peek-vs-last-delivered", || format!("peek() = {} but the last value delivered in the common order is {}", v.show(), last.show()));
      }
    }
  }
  // no lost terminal: a complete / error handed to a single-input thread-safe pipeline that nobody unsubscribed
  // reaches the subscriber once all scheduled work has been drained (a waiter on it would otherwise sleep forever)
  {
    let single = matches!(p, Pipe::ObserveOn | Pipe::Delay | Pipe::Debounce | Pipe::ThrottleTail | Pipe::Finalize | Pipe::Last | Pipe::Share | Pipe::Behavior) || RATE_PIPES.contains(&p) || MOVE_PIPES.contains(&p);
    let fed_terminal = script.iter().flatten().any(|o| matches!(o, TOp::Feed(_, Ev::Complete) | TOp::Feed(_, Ev::Err(_))));
    let cut = script.iter().flatten().any(|o| matches!(o, TOp::Unsub));
    if single && fed_terminal && !cut && !rig.probes[0].terminated() {
      e::fail(&format!("terminal-lost/{:?}", p), || format!("the source terminated and nobody unsubscribed, yet after draining every scheduled task the subscriber has seen [{}]", model::show_events(&rig.probes[0].events())));
    }
  }
  // debounce owes the subscriber the last item whenever the source then stays quiet: after the drain (clock far
  // beyond every window, every task polled) it must have arrived, completion or not
  if matches!(p, Pipe::DebounceTick | Pipe::DebounceZero | Pipe::Debounce) {
    let cut = script.iter().flatten().any(|o| matches!(o, TOp::Unsub));
    let failed = script.iter().flatten().any(|o| matches!(o, TOp::Feed(_, Ev::Err(_))));
    let emitted: Vec<(usize, Ev)> = EMITTED.with(|x| x.borrow().clone());
    let last_item = emitted.iter().take_while(|(_, e)| matches!(e, Ev::Next(_))).filter_map(|(_, e)| if let Ev::Next(v) = e { Some(v.clone()) } else { None }).last();
    if let (false, false, Some(v)) = (cut, failed, last_item) {
      let got = rig.probes[0].events();
      let mut any = crate::val::ff();
      for g in &got {
        if let Ev::Next(x) = g {
          any = crate::val::b_or(any, x.eq_t(&v));
        }
      }
      if !e::valid(any) {
        let cond = crate::val::b_or(any, crate::val::b_not(script_values_distinct(&script)));
        e::check(cond, &format!("last-item-withheld/{:?}", p), || format!("the source's last item {} was followed by silence, yet after every window has elapsed the subscriber has seen [{}]", v.show(), model::show_events(&got)));
      }
    }
  }
  if p == Pipe::Finalize {
    let n = world::counter(1);
    let triggered = rig.probes[0].terminated() || rig.unsub.borrow().is_none();
    if triggered && n != 1 {
      e::fail("finalize_threads/not-exactly-once", || format!("finalizer ran {} times after terminate/unsubscribe from two threads", n));
    }
  }
  // Serialisability: what the subscribers saw must be what *some* serial order of the two
  // threads' operations produces (each operation atomic), decided by replaying every such
  // order against a fresh instance of the same pipeline. A lost completion, a lost item or
  // a lost hand-over shows up here.
  if !matches!(p, Pipe::FlatMapIter) && !script.iter().flatten().any(|o| matches!(o, TOp::Subscribe)) {
    let got: Vec<Vec<Ev>> = rig.probes.iter().map(|q| q.events()).collect();
    let got_logs: Vec<Vec<world::Rec>> = rig.probes.iter().map(|q| q.log()).collect();
    let emitted_concurrent: Vec<(usize, Ev)> = EMITTED.with(|x| x.borrow().clone());
    let unsub_tick = world::counter(95) as u64;
    drop(rig);
    let orders = interleavings(script[0].len(), script[1].len());
    let mut ok = false;
    let mut shown = vec![];
    // equality terms of the serial orders whose outcome has the right shape: the verdict "none of them" is put to
    // the solver together with "all script values distinct", so that the model it returns replays concretely
    let mut order_terms: Vec<u32> = vec![];
    for order in orders {
      world::reset_world();
      let rig2 = build(p);
      let late2: Rc<RefCell<Vec<Probe>>> = Rc::new(RefCell::new(vec![]));
      let mut idx = [0usize; 2];
      for t in order {
        let op = script[t][idx[t]].clone();
        idx[t] += 1;
        (make_closure(&rig2, op, late2.clone(), "unused"))();
      }
      // the serial replay is only an oracle: its own monitors are not the subject here
      (rig2.drain)();
      let want: Vec<Vec<Ev>> = rig2.probes.iter().map(|q| q.events()).collect();
      let mut t = crate::val::tt();
      let mut shape = got.len() == want.len();
      if shape {
        for (a, b) in got.iter().zip(want.iter()) {
          match model::compare_events(a, b) {
            Ok(x) => t = crate::val::b_and(t, x),
            Err(_) => shape = false,
          }
        }
      }
      if shape && e::valid(t) {
        ok = true;
        break;
      }
      if shape {
        order_terms.push(t);
      }
      if shown.len() < 3 {
        shown.push(want.iter().map(|l| model::show_events(l)).collect::<Vec<_>>().join(" / "));
      }
    }
    // unsubscribe() is a multi-step teardown, not an atomic operation: a delivery that is concurrent with it may
    // or may not happen. For a script with an unsubscribe the outcome may therefore also be: what was delivered
    // before the teardown began is a prefix of some serial order of the *other* operations, and what was
    // delivered after that moment is a subsequence of the rest of that order's outcome.
    if !ok && unsub_tick > 0 {
      let script2: Vec<Vec<TOp>> = script.iter().map(|l| l.iter().filter(|o| !matches!(o, TOp::Unsub)).cloned().collect()).collect();
      'orders: for order in interleavings(script2[0].len(), script2[1].len()) {
        world::reset_world();
        let rig2 = build(p);
        let late2: Rc<RefCell<Vec<Probe>>> = Rc::new(RefCell::new(vec![]));
        let mut idx = [0usize; 2];
        for t in order {
          let op = script2[t][idx[t]].clone();
          idx[t] += 1;
          (make_closure(&rig2, op, late2.clone(), "unused"))();
        }
        (rig2.drain)();
        let want: Vec<Vec<Ev>> = rig2.probes.iter().map(|q| q.events()).collect();
        if want.len() != got_logs.len() {
          continue;
        }
        for (log, w) in got_logs.iter().zip(want.iter()) {
          let nb = log.iter().filter(|r| r.tick < unsub_tick).count();
          if nb > w.len() {
            continue 'orders;
          }
          let before: Vec<Ev> = log[..nb].iter().map(|r| r.ev.clone()).collect();
          match model::compare_events(&before, &w[..nb]) {
            Ok(t) if e::valid(t) => {}
            _ => continue 'orders,
          }
          let mut pos = nb;
          for r in &log[nb..] {
            let mut found = false;
            while pos < w.len() {
              let m = model::compare_events(std::slice::from_ref(&r.ev), std::slice::from_ref(&w[pos]));
              pos += 1;
              if let Ok(t) = m {
                if e::valid(t) {
                  found = true;
                  break;
                }
              }
            }
            if !found {
              continue 'orders;
            }
          }
        }
        ok = true;
        break;
      }
    }
    // (debounce's timer task reads the *latest* value: when it fires during a next() call it hands out the newer
    // item at once, which no serial order of whole calls does; nothing is lost or duplicated, see generic_rate_ok)
    if !ok && ((nops >= 3 && (RATE_PIPES.contains(&p) || MOVE_PIPES.contains(&p))) || matches!(p, Pipe::DebounceZero | Pipe::DebounceTick)) {
      ok = generic_rate_ok(p, &got[0], &emitted_concurrent, unsub_tick > 0);
      if ok {
        e::cover("accepted-by-the-order-insensitive-rules-only");
      }
    }
    if !ok {
      let mut any = crate::val::ff();
      for t in &order_terms {
        any = crate::val::b_or(any, *t);
      }
      let cond = crate::val::b_or(any, crate::val::b_not(script_values_distinct(&script)));
      e::check(cond, &format!("not-serialisable/{:?}", p), || format!("concurrent run delivered [{}]; no serial order of the same operations does (e.g. {})", got.iter().map(|l| model::show_events(l)).collect::<Vec<_>>().join(" / "), shown.join(" | ")));
    }
  }
  e::cfg_end(&format!("{:?}", p));
  e::cover("c10-preempt-path-complete");
}

/// Lockset (Eraser) and lock-order: each logical thread's script runs to completion
/// in turn with the lock monitor on. Every probe callback must be covered by a
/// common lock; no two threads may take two locks in opposite orders.
fn c10_lockset_order(nops: usize) {
  let p = C10_PIPES[e::choose(C10_PIPES.len() as u32) as usize];
  world::lock_monitor_enable(2);
  world::lockset_check(false);
  let rig = build(p);
  world::lockset_check(true);
  let late: Rc<RefCell<Vec<Probe>>> = Rc::new(RefCell::new(vec![]));
  let mut desc = vec![];
  for t in 0..2 {
    world::set_current_thread(t);
    for _ in 0..nops {
      let op = draw_op(&rig, true);
      desc.push(format!("T{}:{}", t, show_op(&op)));
      let f = make_closure(&rig, op, late.clone(), "delivery-after-unsubscribe");
      f();
    }
    if matches!(p, Pipe::ObserveOn | Pipe::Delay) {
      // the pool's worker delivers on yet another thread, which is this one for the monitor
      (rig.drain)();
    }
  }
  e::note(format!("{:?}_threads ; {}", p, desc.join(" | ")));
  if let Some((a, b)) = world::lock_order_cycle() {
    e::fail(&format!("lock-order-cycle/{:?}", p), || format!("one thread acquires lock #{} while holding #{}, another acquires #{} while holding #{}: they can deadlock", b, a, a, b));
  }
  world::hooks_disable();
  e::cover("c10-lockset-path-complete");
}

pub fn harnesses() -> Vec<HarnessDef> {
  let mut v = vec![];
  let mut add = |id: &'static str, props: Vec<&'static str>, about: &'static str, bounds: fn(bool) -> String, f: Box<dyn Fn(bool) + Send + Sync>, bq: u64, bt: u64| {
    v.push(HarnessDef { id, props, about, bounds, f, budget_quick: bq, budget_thorough: bt, thorough_only: false, sampled: true });
  };
  add("c10_lockset_order", vec!["C10"], "Eraser lockset on every subscriber callback + lock-order cycle detection between two logical threads' scripts (sufficient conditions that cover all interleavings of the scripts, not only explored ones)", |t| format!("9 thread-safe pipelines; 2 threads x {} operations (next/complete/error on every input, unsubscribe, subscribe)", if t { 3 } else { 2 }), Box::new(|t| c10_lockset_order(if t { 3 } else { 2 })), 2_000_000, 40_000_000);
  add("c10_preempt", vec!["C10"], "two logical threads with nested pre-emption at every MutArc lock acquisition, inside callbacks and at yield points: overlapping callbacks, deadlock (lock cycle), self-deadlock, panic, common delivery order", |t| format!("9 thread-safe pipelines; 2 threads x {} operations; <= {} pre-emptions, nesting depth 2", if t { 2 } else { 2 }, if t { 3 } else { 2 }), Box::new(|t| c10_preempt(C10_PIPES, 2, if t { 3 } else { 2 })), 3_000_000, 40_000_000);
  add("c02_threads", vec!["C02", "C17"], "an unsubscribing logical thread racing an emitting one at every lock acquisition: no callback may start after unsubscribe() returned (scheduled work is drained afterwards)", |_| "9 thread-safe pipelines + finalize_threads, debounce, throttle(tailing); 2 threads x 2 operations".to_string(), Box::new(|_| c10_preempt(&[Pipe::Subject, Pipe::Merge, Pipe::Zip, Pipe::CombineLatest, Pipe::TakeUntil, Pipe::MergeAll, Pipe::Share, Pipe::ObserveOn, Pipe::Delay, Pipe::Finalize, Pipe::Debounce, Pipe::ThrottleTail, Pipe::ConcatAll, Pipe::ConcatQueued], 2, 3)), 3_000_000, 40_000_000);
  add("c05_threads_iter", vec!["C05", "C16"], "flat_map_threads over a hot inner and a synchronous from_iter inner: another thread terminates the output while the iterator inner is emitting; it must stop pulling (no blocking on an unbounded iterator)", |_| "2 threads x 2 operations, <= 3 pre-emptions".to_string(), Box::new(|_| c10_preempt(&[Pipe::FlatMapIter], 2, 3)), 3_000_000, 40_000_000);
  add("c02_threads_sched", vec!["C02", "C19", "C17"], "a pool worker thread polling scheduled tasks (subscribe_on / delay_subscription over a synchronous source, observe_on_threads, delay_threads, interval) racing an unsubscribing thread at every lock acquisition and inside callbacks", |_| "5 pipelines; worker: 3 executor steps; 1 unsubscribe; <= 3 pre-emptions".to_string(), Box::new(|_| c02_threads_sched()), 3_000_000, 40_000_000);
  add("c09_threads_preempt", vec!["C09", "C10"], "buffer_with_time, buffer_with_count_and_time, sample(interval), throttle(all), debounce on a thread-safe source: the pool worker's timer callbacks race the source thread at every lock acquisition and inside callbacks; monitors + serialisability (no item or final buffer may be lost while a tick is being delivered)", |t| format!("7 rate-limiting pipelines; 2 threads x {} operations from next/complete/error/unsubscribe/clock tick + poll; <= 3 pre-emptions", if t { 3 } else { 2 }), Box::new(|t| c10_preempt(RATE_PIPES, if t { 3 } else { 2 }, 3)), 3_000_000, 40_000_000);
  add("c07_threads_preempt", vec!["C07", "C10"], "observe_on_threads / delay_threads with the pool worker (FIFO) polling on one logical thread while the source emits on the other: monitors + serialisability (no item or terminal lost, duplicated or reordered by the race)", |t| format!("2 pipelines; T0 (worker + producer) 3 operations, T1 {} from next/complete/error/unsubscribe; clock +1 / poll one task are separate worker operations; <= 3 pre-emptions", if t { 3 } else { 2 }), Box::new(|t| c10_preempt_xx(MOVE_PIPES, 3, if t { 3 } else { 2 }, 3, false)), 3_000_000, 40_000_000);
  add("c17_threads", vec!["C17", "C10"], "is_closed() asked on the returned handle by one logical thread while the other is emitting or terminating (and around unsubscribe()): once it answered true, no notification may start, whatever is still in flight", |_| "10 thread-safe pipelines incl. last(); 2 threads x 2 operations; <= 3 pre-emptions".to_string(), Box::new(|_| c10_preempt_x(C17_PIPES, 2, 3, true)), 3_000_000, 40_000_000);
  add("c10_merge_move_preempt", vec!["C10", "C07"], "two sources merged and then handed to the pool (merge_threads + observe_on_threads / delay_threads): the worker's steps race the two producers; monitors, serialisability, and a producer's next() must not block on the consumer's running callback", |t| format!("2 pipelines; 2 threads x {} operations; clock +1 / poll one task are worker operations of T0; <= 3 pre-emptions", if t { 3 } else { 2 }), Box::new(|t| c10_preempt(MERGE_MOVE_PIPES, if t { 3 } else { 2 }, 3)), 3_000_000, 40_000_000);
  add("c04_threads_preempt", vec!["C04", "C10"], "the two-input _threads combinators with their two inputs driven by two logical threads: monitors + serialisability (a terminal of one input must not be lost or duplicated while the other input is delivering)", |_| "merge, zip, combine_latest, with_latest_from, take_until, skip_until, sample _threads; 2 threads x 2 operations; <= 3 pre-emptions".to_string(), Box::new(|_| c10_preempt(&[Pipe::Merge, Pipe::Zip, Pipe::CombineLatest, Pipe::WithLatestFrom, Pipe::TakeUntil, Pipe::SkipUntil, Pipe::Sample], 2, 3)), 3_000_000, 40_000_000);
  add("c06_threads", vec!["C06"], "SubjectThreads under two logical threads: every subscriber's log stays well-formed and all subscribers agree on the order", |t| format!("2 threads x {} operations", if t { 3 } else { 2 }), Box::new(|t| c10_preempt(&[Pipe::Subject], if t { 3 } else { 2 }, 3)), 3_000_000, 40_000_000);
  add("c12_threads", vec!["C12"], "BehaviorSubject over SubjectThreads: two producers and a late subscriber; peek() = last value in the common delivery order", |_| "2 threads x 2 operations".to_string(), Box::new(|_| c10_preempt(&[Pipe::Behavior], 2, 3)), 3_000_000, 40_000_000);
  add("c15_threads_sched", vec!["C15", "C02"], "finalize_threads above subscribe_on: the pool worker runs the subscribing task while another thread unsubscribes, at every lock acquisition: the finalizer runs exactly once and nothing is delivered afterwards", |_| "worker: 3 executor steps; 1 unsubscribe; <= 3 pre-emptions".to_string(), Box::new(|_| c02_threads_sched_x(5)), 3_000_000, 40_000_000);
  add("c15_threads", vec!["C15"], "finalize_threads: a terminating thread racing an unsubscribing thread: exactly once", |_| "2 threads x 2 operations".to_string(), Box::new(|_| c10_preempt(&[Pipe::Finalize], 2, 3)), 3_000_000, 40_000_000);
  v
}
