mod cat;
mod engine;
mod h_basic;
mod h_subject;
mod h_sched;
mod h_conv;
mod h_diff;
mod h_threads;
mod harness;
mod model;
mod val;
mod world;

use engine::{Decision, Mode, Stats, Violation};
use harness::HarnessDef;
use std::collections::BTreeMap;
use std::sync::atomic::{AtomicBool, AtomicU64, AtomicUsize, Ordering};
use std::sync::{Arc, Mutex};
use std::time::Instant;

struct Job {
  h: usize,
  prefix: Vec<Decision>,
}

struct HState {
  stats: Stats,
  violations: BTreeMap<String, (Violation, u64)>, // key -> (first example, count)
  paths_started: u64,
  xcheck: Vec<(String, engine::SatRes)>,
  wall: f64,
}

fn json_str(s: &str) -> String {
  let mut o = String::from("\"");
  for c in s.chars() {
    match c {
      '"' => o.push_str("\\\""),
      '\\' => o.push_str("\\\\"),
      '\n' => o.push_str("\\n"),
      '\t' => o.push_str("\\t"),
      c if (c as u32) < 0x20 => o.push_str(&format!("\\u{:04x}", c as u32)),
      c => o.push(c),
    }
  }
  o.push('"');
  o
}

fn all_harnesses() -> Vec<HarnessDef> {
  let mut v = vec![];
  v.extend(h_basic::harnesses());
  v.extend(h_basic::harnesses_c17());
  v.extend(h_subject::harnesses());
  v.extend(h_sched::harnesses());
  v.extend(h_sched::harnesses2());
  v.extend(h_sched::harnesses3());
  v.extend(h_sched::harnesses4());
  v.extend(h_conv::harnesses());
  v.extend(h_diff::harnesses());
  v.extend(h_threads::harnesses());
  v
}

fn main() {
  world::init_process();
  let args: Vec<String> = std::env::args().collect();
  if args.len() < 2 {
    eprintln!("usage: sx list | run --prop <ID>|--harness <id> [--thorough] [--seed n] [--jobs n] --out <file> | replay <harness> <trail> <model> [--thorough]");
    std::process::exit(2);
  }
  match args[1].as_str() {
    "list" => {
      for h in all_harnesses() {
        println!("{}\t{}\t{}", h.id, h.props.join(","), h.about);
      }
    }
    "selftest" => {
      engine::install(Mode::Concrete(vec![]), 0);
      let bad = std::panic::catch_unwind(|| model::selftest()).unwrap_or_else(|_| vec!["oracle self-test panicked".to_string()]);
      engine::uninstall();
      if bad.is_empty() {
        println!("oracle self-test: all cases taken from /repo's own tests agree with the reference semantics");
      } else {
        for b in &bad {
          println!("ORACLE-MISMATCH {}", b);
        }
        std::process::exit(1);
      }
    }
    "run" => cmd_run(&args[2..]),
    "replay" => cmd_replay(&args[2..]),
    _ => {
      eprintln!("unknown command");
      std::process::exit(2);
    }
  }
}

fn arg_val(args: &[String], name: &str) -> Option<String> {
  args.iter().position(|a| a == name).and_then(|i| args.get(i + 1).cloned())
}

fn cmd_replay(args: &[String]) {
  let hid = &args[0];
  let trail = engine::parse_trail(&args[1]);
  let model: Vec<i64> = if args.len() > 2 && !args[2].starts_with("--") && !args[2].is_empty() && args[2] != "-" {
    args[2].split(',').filter(|s| !s.is_empty()).map(|s| s.parse().unwrap()).collect()
  } else {
    vec![]
  };
  let thorough = args.iter().any(|a| a == "--thorough");
  let hs = all_harnesses();
  let h = hs.iter().find(|h| h.id == *hid).unwrap_or_else(|| {
    eprintln!("no such harness {}", hid);
    std::process::exit(2)
  });
  engine::install(Mode::Concrete(model.clone()), 0);
  let f = &h.f;
  let out = engine::run_once(trail, &|| f(thorough));
  let ctx = engine::uninstall().unwrap();
  println!("harness: {}", h.id);
  println!("model: {:?}", model);
  match &out.violation {
    Some(v) => {
      for n in &v.notes {
        println!("  {}", n);
      }
      println!("REPRODUCED key={} detail={}", v.key, v.detail);
      std::process::exit(1);
    }
    None => {
      for n in &ctx.notes {
        println!("  {}", n);
      }
      println!("NOT-REPRODUCED (pruned={})", out.pruned);
      std::process::exit(0);
    }
  }
}

fn cmd_run(args: &[String]) {
  let t0 = Instant::now();
  let prop = arg_val(args, "--prop");
  let only = arg_val(args, "--harness");
  let thorough = args.iter().any(|a| a == "--thorough");
  let seed: u64 = arg_val(args, "--seed").and_then(|s| s.parse().ok()).unwrap_or(0);
  let jobs: usize = arg_val(args, "--jobs").and_then(|s| s.parse().ok()).unwrap_or(16);
  let out_path = arg_val(args, "--out").expect("--out");
  let time_cap: f64 = arg_val(args, "--time-cap").and_then(|s| s.parse().ok()).unwrap_or(if thorough { 1500.0 } else { 600.0 });

  let hs: Vec<HarnessDef> = all_harnesses()
    .into_iter()
    .filter(|h| match (&prop, &only) {
      (_, Some(o)) => h.id == *o || h.id.starts_with(&format!("{}", o)),
      (Some(p), None) => h.props.iter().any(|x| x == p),
      (None, None) => true,
    })
    .filter(|h| thorough || !h.thorough_only)
    .collect();
  if hs.is_empty() {
    eprintln!("no harness selected");
    std::process::exit(2);
  }
  let hs = Arc::new(hs);
  let states: Arc<Vec<Mutex<HState>>> = Arc::new(
    hs.iter()
      .map(|_| Mutex::new(HState { stats: Stats::default(), violations: BTreeMap::new(), paths_started: 0, xcheck: vec![], wall: 0.0 }))
      .collect(),
  );
  let started: Arc<Vec<AtomicU64>> = Arc::new(hs.iter().map(|_| AtomicU64::new(0)).collect());
  let queue: Arc<Mutex<Vec<Job>>> = Arc::new(Mutex::new(hs.iter().enumerate().rev().map(|(i, _)| Job { h: i, prefix: vec![] }).collect()));
  let idle = Arc::new(AtomicUsize::new(0));
  let stop = Arc::new(AtomicBool::new(false));
  let timed_out = Arc::new(AtomicBool::new(false));

  let mut handles = vec![];
  for wid in 0..jobs {
    let hs = hs.clone();
    let states = states.clone();
    let queue = queue.clone();
    let idle = idle.clone();
    let stop = stop.clone();
    let started = started.clone();
    let timed_out = timed_out.clone();
    let t_start = t0;
    handles.push(std::thread::Builder::new().stack_size(256 << 20).spawn(move || {
      world::init_process();
      engine::install(Mode::Symbolic, seed.wrapping_add(wid as u64 * 7919 + 1));
      let mut local: Vec<Job> = vec![];
      let mut rng: u64 = (seed.wrapping_add(1)).wrapping_mul(0x9E3779B97F4A7C15).wrapping_add(wid as u64) | 1;
      let mut is_idle = false;
      loop {
        if stop.load(Ordering::SeqCst) {
          for j in local.drain(..) {
            states[j.h].lock().unwrap().stats.budget_hit = true;
          }
          break;
        }
        if t_start.elapsed().as_secs_f64() > time_cap {
          // the time cap is a budget: whatever is still on the frontier stays unexplored and
          // the harnesses concerned are reported as not exhaustive
          timed_out.store(true, Ordering::SeqCst);
          stop.store(true, Ordering::SeqCst);
          for j in local.drain(..) {
            states[j.h].lock().unwrap().stats.budget_hit = true;
          }
          for j in queue.lock().unwrap().drain(..) {
            states[j.h].lock().unwrap().stats.budget_hit = true;
          }
          break;
        }
        let job = if let Some(j) = local.pop() {
          Some(j)
        } else {
          queue.lock().unwrap().pop()
        };
        let job = match job {
          Some(j) => {
            if is_idle {
              is_idle = false;
              idle.fetch_sub(1, Ordering::SeqCst);
            }
            j
          }
          None => {
            if !is_idle {
              is_idle = true;
              idle.fetch_add(1, Ordering::SeqCst);
            }
            if idle.load(Ordering::SeqCst) >= jobs {
              break;
            }
            std::thread::sleep(std::time::Duration::from_millis(2));
            continue;
          }
        };
        let h = &hs[job.h];
        let budget = if thorough { h.budget_thorough } else { h.budget_quick };
        let n = started[job.h].fetch_add(1, Ordering::SeqCst);
        if n >= budget {
          let mut st = states[job.h].lock().unwrap();
          st.stats.budget_hit = true;
          continue;
        }
        let f = &h.f;
        let tr = Instant::now();
        let out = engine::run_once(job.prefix, &|| f(thorough));
        let dt = tr.elapsed().as_secs_f64();
        // hand the alternatives out
        let mut alts: Vec<Job> = out.alternatives.into_iter().map(|p| Job { h: job.h, prefix: p }).collect();
        if h.sampled && alts.len() > 1 {
          // random frontier order under a budget
          for i in (1..alts.len()).rev() {
            rng ^= rng << 13;
            rng ^= rng >> 7;
            rng ^= rng << 17;
            let j = (rng % (i as u64 + 1)) as usize;
            alts.swap(i, j);
          }
        }
        local.extend(alts);
        if idle.load(Ordering::SeqCst) > 0 && local.len() > 1 {
          let mut q = queue.lock().unwrap();
          let keep = local.len() / 2;
          let give: Vec<Job> = local.drain(..local.len() - keep).collect();
          q.extend(give);
        }
        // book-keeping
        let stats = engine::CTX.with(|c| {
          let mut b = c.borrow_mut();
          let ctx = b.as_mut().unwrap();
          std::mem::take(&mut ctx.stats)
        });
        let mut st = states[job.h].lock().unwrap();
        st.stats.merge(&stats);
        st.wall += dt;
        st.paths_started += 1;
        if let Some(v) = out.violation {
          let e = st.violations.entry(v.key.clone()).or_insert((v, 0));
          e.1 += 1;
        }
      }
      // collect cross-check samples
      if let Some(ctx) = engine::uninstall() {
        let qs: Vec<(String, engine::SatRes)> = ctx.xcheck.into_iter().zip(ctx.xcheck_expect.into_iter()).collect();
        if !qs.is_empty() {
          let mut st = states[0].lock().unwrap();
          st.xcheck.extend(qs);
        }
      }
    }).unwrap());
  }
  for h in handles {
    let _ = h.join();
  }

  // second-solver cross-check on the sampled queries
  let qs: Vec<(String, engine::SatRes)> = {
    let mut st = states[0].lock().unwrap();
    std::mem::take(&mut st.xcheck)
  };
  let qs: Vec<(String, engine::SatRes)> = qs.into_iter().take(if thorough { 200 } else { 40 }).collect();
  let (asked, agreed, problems) = engine::cross_check_cvc5(&qs);

  // concrete replay of every distinct violation in this process
  let mut out = String::new();
  out.push_str("{\n");
  out.push_str(&format!(" \"tier\": {},\n", json_str(if thorough { "thorough" } else { "quick" })));
  out.push_str(&format!(" \"seed\": {},\n", seed));
  out.push_str(&format!(" \"wall_s\": {:.3},\n", t0.elapsed().as_secs_f64()));
  out.push_str(&format!(" \"timed_out\": {},\n", timed_out.load(Ordering::SeqCst)));
  out.push_str(&format!(" \"xcheck\": {{\"asked\": {}, \"agreed\": {}, \"problems\": [{}]}},\n", asked, agreed, problems.iter().map(|p| json_str(p)).collect::<Vec<_>>().join(",")));
  out.push_str(" \"harnesses\": [\n");
  let mut first = true;
  let mut any_violation = false;
  for (i, h) in hs.iter().enumerate() {
    let st = states[i].lock().unwrap();
    if !first {
      out.push_str(",\n");
    }
    first = false;
    let s = &st.stats;
    out.push_str("  {");
    out.push_str(&format!("\"id\": {}, \"props\": [{}], \"about\": {}, \"bounds\": {}, ", json_str(h.id), h.props.iter().map(|p| json_str(p)).collect::<Vec<_>>().join(","), json_str(h.about), json_str(&(h.bounds)(thorough))));
    out.push_str(&format!(
      "\"paths\": {}, \"pruned\": {}, \"symbolic_paths\": {}, \"nontrivial_paths\": {}, \"branch_queries\": {}, \"check_queries\": {}, \"sat\": {}, \"unsat\": {}, \"solver_s\": {:.3}, \"forks_sym\": {}, \"forks_choice\": {}, \"max_depth\": {}, \"checks_discharged\": {}, \"budget_hit\": {}, \"cpu_s\": {:.3}, ",
      s.paths, s.pruned, s.symbolic_paths, s.nontrivial_paths, s.branch_queries, s.check_queries, s.sat, s.unsat, s.solver_s, s.forks_sym, s.forks_choice, s.max_depth, s.checks_discharged, s.budget_hit, st.wall
    ));
    out.push_str(&format!("\"inconclusive\": [{}], ", s.inconclusive.iter().map(|p| json_str(p)).collect::<Vec<_>>().join(",")));
    out.push_str(&format!("\"covers\": {{{}}}, ", s.covers.iter().map(|(k, v)| format!("{}: {}", json_str(k), v)).collect::<Vec<_>>().join(",")));
    out.push_str(&format!("\"samples\": [{}], ", s.samples.iter().map(|p| json_str(p)).collect::<Vec<_>>().join(",")));
    out.push_str("\"violations\": [");
    let mut vfirst = true;
    for (k, (v, cnt)) in st.violations.iter() {
      any_violation = true;
      // in-process concrete replay
      engine::install(Mode::Concrete(v.model.clone()), 0);
      let f = &h.f;
      let r = engine::run_once(v.trail.clone(), &|| f(thorough));
      engine::uninstall();
      let reproduced = r.violation.as_ref().map_or(false, |x| x.key == *k);
      if !vfirst {
        out.push(',');
      }
      vfirst = false;
      out.push_str(&format!(
        "{{\"key\": {}, \"count\": {}, \"detail\": {}, \"trail\": {}, \"model\": [{}], \"notes\": [{}], \"reproduced_in_process\": {}}}",
        json_str(k),
        cnt,
        json_str(&v.detail),
        json_str(&engine::fmt_trail(&v.trail)),
        v.model.iter().map(|x| x.to_string()).collect::<Vec<_>>().join(","),
        v.notes.iter().map(|p| json_str(p)).collect::<Vec<_>>().join(","),
        reproduced
      ));
    }
    out.push_str("]}");
  }
  out.push_str("\n ]\n}\n");
  std::fs::write(&out_path, out).expect("write out");
  let _ = any_violation;
}
