//! C18: the same decision trail (choices and symbolic variables) replayed into the
//! local and the thread-safe form of a harness; every probe log compared by z3.
use crate::engine as e;
use crate::harness::*;
use crate::model;
use crate::val::Val;
use crate::world::{self, Ev};
use rxrust::prelude::*;

fn all_logs() -> Vec<Vec<Ev>> {
  world::w(|w| w.probes.iter().map(|p| p.log.iter().map(|r| r.ev.clone()).collect()).collect())
}
/// the driver step during which each notification arrived (all zero where the harness does not count steps)
fn all_steps() -> Vec<Vec<u64>> {
  world::w(|w| w.probes.iter().map(|p| p.log.iter().map(|r| r.step).collect()).collect())
}

fn diff(name: &str, f: impl Fn(bool)) {
  let (a, b, diverged) = e::twice(
    |threads| {
      f(threads);
      (all_logs(), all_steps())
    },
    || world::reset_world(),
  );
  let ((a, sa), (b, sb)) = (a, b);
  if diverged {
    e::fail(&format!("local-vs-threads/{}/control-flow-diverged", name), || "the thread-safe form asked for different harness choices than the local form (it reached a different state)".to_string());
  }
  if a.len() != b.len() {
    e::fail(&format!("local-vs-threads/{}/probe-count", name), || format!("{} probes vs {}", a.len(), b.len()));
  }
  for (i, (x, y)) in a.iter().zip(b.iter()).enumerate() {
    let key = format!("local-vs-threads/{}", name);
    let detail = || format!("probe {}: local [{}] ; threads [{}]", i, model::show_events(x), model::show_events(y));
    match model::compare_events(x, y) {
      Ok(t) => e::check(t, &key, detail),
      Err(why) => e::fail(&key, || format!("{} ; {}", why, detail())),
    }
  }
  // the same notifications, and each during the same action of the driver (a source call, an executor run, a
  // clock move): a form that delivers inline what the other one hands to the scheduler differs here
  if sa != sb {
    e::fail(&format!("local-vs-threads/{}/delivered-during-a-different-step", name), || format!("driver steps of the deliveries: local {:?} ; threads {:?}", sa, sb));
  }
  e::cover("c18-diff-path-complete");
}

pub fn harnesses() -> Vec<HarnessDef> {
  use crate::h_basic as hb;
  use crate::h_sched as hs;
  use crate::h_subject as hj;
  let mut v = vec![];
  let mut add = |id: &'static str, about: &'static str, bounds: fn(bool) -> String, f: Box<dyn Fn(bool) + Send + Sync>, bq: u64, bt: u64| {
    v.push(HarnessDef { id, props: vec!["C18"], about, bounds, f, budget_quick: bq, budget_thorough: bt, thorough_only: false, sampled: true });
  };
  add("c18_subject", "Subject vs SubjectThreads: same operation history", |t| format!("{} operations, 3 subscribers", if t { 7 } else { 5 }), Box::new(|t| {
    let n = if t { 7 } else { 5 };
    diff("subject", |th| if th { hj::c06_history::<SubjectThreads<Val, Val>>(n) } else { hj::c06_history::<Subject<'static, Val, Val>>(n) })
  }), 2_000_000, 30_000_000);
  add("c18_behavior", "BehaviorSubject over Subject vs over SubjectThreads", |t| format!("{} operations", if t { 7 } else { 5 }), Box::new(|t| {
    let n = if t { 7 } else { 5 };
    diff("behavior", |th| if th { hj::c12_history::<BehaviorSubject<Val, SubjectThreads<Val, Val>>>(n) } else { hj::c12_history::<BehaviorSubject<Val, Subject<'static, Val, Val>>>(n) })
  }), 2_000_000, 30_000_000);
  add("c18_share", "share vs share_threads", |t| format!("{} operations", if t { 7 } else { 6 }), Box::new(|t| {
    let n = if t { 7 } else { 6 };
    diff("share", |th| hj::c11_history(if th { hj::ShareKind::ShareThreads } else { hj::ShareKind::ShareLocal }, n))
  }), 2_000_000, 30_000_000);
  add("c18_group_by", "group_by over Subject vs SubjectThreads", |t| format!("<= {} symbolic items", if t { 5 } else { 4 }), Box::new(|t| {
    let n = if t { 5 } else { 4 };
    diff("group_by", |th| hj::c20_group_by(n, th))
  }), 2_000_000, 30_000_000);
  add("c18_flatten", "merge_all / concat_all / flatten / flat_map / concat_map vs their _threads forms", |t| format!("{} steps, 3 inners", if t { 7 } else { 6 }), Box::new(|t| {
    let n = if t { 7 } else { 6 };
    diff("flatten", |th| hj::c05_flatten(n, 3, th))
  }), 2_000_000, 30_000_000);
  add("c18_flatten_cut", "the flattening operators vs their _threads forms with unsubscribe() at every step: whatever still arrives afterwards shows in one form only", |t| format!("{} steps, 3 inners", if t { 6 } else { 5 }), Box::new(|t| {
    let n = if t { 6 } else { 5 };
    diff("flatten-cut", |th| hj::c05_flatten_x(n, 3, th, true))
  }), 2_000_000, 30_000_000);
  add("c18_move", "observe_on / delay / delay_subscription / subscribe_on vs _threads forms on the same executor discipline", |t| format!("<= {} items", if t { 3 } else { 2 }), Box::new(|t| {
    let n = if t { 3 } else { 2 };
    diff("move", |th| hs::c07_run(th, n, false))
  }), 2_000_000, 30_000_000);
  add("c18_finalize", "finalize vs finalize_threads", |t| format!("{} steps", if t { 6 } else { 5 }), Box::new(|t| {
    let n = if t { 6 } else { 5 };
    diff("finalize", |th| hb::c15_finalize(n, th))
  }), 2_000_000, 30_000_000);
  v
}
