//! Reference semantics (the oracle): list interpreters over `Val`, shared by
//! all harnesses. They run on the same symbolic values as the real code and
//! after it, so their comparisons are decided by the path condition.
use crate::val::{Sym, Val};
use crate::world::Ev;

#[derive(Clone, Debug)]
pub enum Tm {
  None,
  Complete,
  Error(Val),
}

#[derive(Clone, Debug)]
pub struct Script {
  pub items: Vec<Val>,
  pub term: Tm,
}

impl Script {
  pub fn events(&self) -> Vec<Ev> {
    let mut v: Vec<Ev> = self.items.iter().cloned().map(Ev::Next).collect();
    match &self.term {
      Tm::None => {}
      Tm::Complete => v.push(Ev::Complete),
      Tm::Error(e) => v.push(Ev::Err(e.clone())),
    }
    v
  }
  pub fn from_events(evs: &[Ev]) -> Script {
    // cut at first terminal (what `create`/subjects do with later events)
    let mut items = vec![];
    for e in evs {
      match e {
        Ev::Next(v) => items.push(v.clone()),
        Ev::Complete => return Script { items, term: Tm::Complete },
        Ev::Err(x) => return Script { items, term: Tm::Error(x.clone()) },
      }
    }
    Script { items, term: Tm::None }
  }
  pub fn show(&self) -> String {
    let mut s = String::new();
    for i in &self.items {
      s.push_str(&i.show());
      s.push(' ');
    }
    match &self.term {
      Tm::None => s.push_str("..."),
      Tm::Complete => s.push('|'),
      Tm::Error(e) => s.push_str(&format!("X({})", e.show())),
    }
    s
  }
}

#[derive(Clone, Copy, Debug, PartialEq, Eq)]
pub enum Op {
  Map,
  MapTo,
  Filter,
  FilterMap,
  Tap,
  Take,
  Skip,
  TakeWhile,
  TakeWhileInclusive,
  SkipWhile,
  TakeLast,
  SkipLast,
  First,
  FirstOr,
  Last,
  LastOr,
  ElementAt,
  IgnoreElements,
  StartWith,
  DefaultIfEmpty,
  ScanInitial,
  Scan,
  ReduceInitial,
  Reduce,
  Count,
  Sum,
  Min,
  Max,
  Average,
  Distinct,
  DistinctKey,
  DistinctUntilChanged,
  DistinctUntilKeyChanged,
  Pairwise,
  BufferWithCount,
  Contains,
  All,
  Collect,
  CollectInto,
  OnErrorMap,
  // pass-through operators (not in C03's list, same list semantics = identity)
  Finalize,
  BoxIt,
  /// the stream relayed through a Subject used as observer (publish + connect)
  Relay,
  /// complete_status() in the middle of a chain (its status handle is dropped)
  Status,
  /// group_by(v mod 2) flattened back with flat_map: every item reaches its group's subject synchronously, so
  /// the source order is preserved
  GroupFlat,
}

pub const C03_OPS: &[Op] = &[
  Op::Map,
  Op::MapTo,
  Op::Filter,
  Op::FilterMap,
  Op::Tap,
  Op::Take,
  Op::Skip,
  Op::TakeWhile,
  Op::TakeWhileInclusive,
  Op::SkipWhile,
  Op::TakeLast,
  Op::SkipLast,
  Op::First,
  Op::FirstOr,
  Op::Last,
  Op::LastOr,
  Op::ElementAt,
  Op::IgnoreElements,
  Op::StartWith,
  Op::DefaultIfEmpty,
  Op::ScanInitial,
  Op::Scan,
  Op::ReduceInitial,
  Op::Reduce,
  Op::Count,
  Op::Sum,
  Op::Min,
  Op::Max,
  Op::Average,
  Op::Distinct,
  Op::DistinctKey,
  Op::DistinctUntilChanged,
  Op::DistinctUntilKeyChanged,
  Op::Pairwise,
  Op::BufferWithCount,
  Op::Contains,
  Op::All,
  Op::Collect,
  Op::CollectInto,
  Op::OnErrorMap,
];

pub const PASS_OPS: &[Op] = &[Op::Finalize, Op::BoxIt, Op::Relay, Op::Status, Op::GroupFlat];

/// Operator parameters (drawn by the harness).
#[derive(Clone, Debug)]
pub struct P {
  pub n: usize,
  pub th: Val,
  pub pk: u32,
  pub vs: Vec<Val>,
  /// which counter a side-effecting closure bumps
  pub ctr: usize,
}

/// predicate family over items: 0: v > th, 1: v == th, 2: v mod 2 == 0, 3: v < th
pub fn pred(pk: u32, th: &Val, v: &Val) -> bool {
  match pk {
    0 => th.sym().is_lt(v.sym()),
    1 => v.sym().is_eq(th.sym()),
    3 => v.sym().is_lt(th.sym()),
    _ => v.sym().modc(2).is_eq(Sym::c(0)),
  }
}

pub fn key2(v: &Val) -> Val {
  Val::S(v.sym().modc(2))
}

pub fn plus(a: &Val, b: &Val) -> Val {
  Val::S(a.sym() + b.sym())
}

fn term_after_all(term: &Tm) -> Tm {
  term.clone()
}

/// List semantics of one operator. `alt` selects the alternative reading where
/// the documentation allows two (see DESIGN §5).
pub fn sem(op: Op, p: &P, input: &Script, alt: bool) -> Script {
  let xs = &input.items;
  let t = &input.term;
  let completed = matches!(t, Tm::Complete);
  let same = |items: Vec<Val>| Script { items, term: term_after_all(t) };
  match op {
    Op::Map => same(xs.iter().map(|v| plus(v, &p.th)).collect()),
    Op::MapTo => same(xs.iter().map(|_| p.th.clone()).collect()),
    Op::Filter => same(xs.iter().filter(|v| pred(p.pk, &p.th, v)).cloned().collect()),
    Op::FilterMap => same(xs.iter().filter(|v| pred(p.pk, &p.th, v)).map(|v| plus(v, &p.th)).collect()),
    Op::Tap | Op::Finalize | Op::BoxIt | Op::Relay | Op::Status | Op::GroupFlat => same(xs.clone()),
    Op::Take => {
      if p.n == 0 {
        if alt {
          return Script { items: vec![], term: Tm::Complete };
        }
        return same(vec![]);
      }
      if xs.len() >= p.n {
        Script { items: xs[..p.n].to_vec(), term: Tm::Complete }
      } else {
        same(xs.clone())
      }
    }
    Op::First => sem(Op::Take, &P { n: 1, ..p.clone() }, input, alt),
    Op::FirstOr => {
      let s = sem(Op::Take, &P { n: 1, ..p.clone() }, input, alt);
      sem(Op::DefaultIfEmpty, p, &s, alt)
    }
    Op::ElementAt => {
      let s = sem(Op::Skip, p, input, alt);
      sem(Op::Take, &P { n: 1, ..p.clone() }, &s, alt)
    }
    Op::Skip => same(xs.iter().skip(p.n).cloned().collect()),
    Op::TakeWhile | Op::TakeWhileInclusive => {
      let mut out = vec![];
      for v in xs {
        if pred(p.pk, &p.th, v) {
          out.push(v.clone());
        } else {
          if op == Op::TakeWhileInclusive {
            out.push(v.clone());
          }
          return Script { items: out, term: Tm::Complete };
        }
      }
      same(out)
    }
    Op::SkipWhile => {
      let mut out = vec![];
      let mut skipping = true;
      for v in xs {
        if skipping && pred(p.pk, &p.th, v) {
          continue;
        }
        skipping = false;
        out.push(v.clone());
      }
      same(out)
    }
    Op::TakeLast => {
      if completed {
        let k = xs.len().saturating_sub(p.n);
        same(xs[k..].to_vec())
      } else {
        same(vec![])
      }
    }
    Op::SkipLast => {
      let k = xs.len().saturating_sub(p.n);
      same(xs[..k].to_vec())
    }
    Op::Last => {
      if completed {
        same(xs.last().cloned().into_iter().collect())
      } else {
        same(vec![])
      }
    }
    Op::LastOr => {
      if completed {
        same(vec![xs.last().cloned().unwrap_or(p.th.clone())])
      } else {
        same(vec![])
      }
    }
    Op::IgnoreElements => same(vec![]),
    Op::StartWith => {
      let mut v = p.vs.clone();
      v.extend(xs.iter().cloned());
      same(v)
    }
    Op::DefaultIfEmpty => {
      if xs.is_empty() && completed {
        same(vec![p.th.clone()])
      } else {
        same(xs.clone())
      }
    }
    Op::ScanInitial | Op::Scan => {
      let mut acc = if op == Op::Scan { Val::default() } else { p.th.clone() };
      let mut out = vec![];
      for v in xs {
        acc = plus(&acc, v);
        out.push(acc.clone());
      }
      same(out)
    }
    Op::ReduceInitial | Op::Reduce | Op::Sum => {
      let mut acc = if op == Op::ReduceInitial { p.th.clone() } else { Val::default() };
      for v in xs {
        acc = plus(&acc, v);
      }
      if completed {
        same(vec![acc])
      } else {
        same(vec![])
      }
    }
    Op::Count => {
      if completed {
        same(vec![Val::c(xs.len() as i64)])
      } else {
        same(vec![])
      }
    }
    Op::Min | Op::Max => {
      if completed && !xs.is_empty() {
        // value-level fold: `if acc > v {acc} else {v}` (resp. `<`); on integers a
        // symbolic ite, on other items (no order) the later item, as `PartialOrd` says
        let mut m = xs[0].clone();
        for v in &xs[1..] {
          m = match (&m, v) {
            (Val::S(a), Val::S(b)) => {
              let c = if op == Op::Max { a.lt_t(*b) } else { b.lt_t(*a) };
              // keep acc only when strictly greater (resp. smaller): else the later item
              let keep_acc = if op == Op::Max { b.lt_t(*a) } else { a.lt_t(*b) };
              let _ = c;
              Val::S(Sym::ite(keep_acc, *a, *b))
            }
            _ => v.clone(),
          };
        }
        same(vec![m])
      } else {
        same(vec![])
      }
    }
    Op::Average => {
      if completed && !xs.is_empty() {
        let mut acc = Sym::c(0);
        for v in xs {
          acc = acc + v.sym();
        }
        same(vec![Val::S(acc.divc(xs.len() as i64))])
      } else {
        same(vec![])
      }
    }
    Op::Distinct | Op::DistinctKey => {
      let mut seen: Vec<Val> = vec![];
      let mut out = vec![];
      for v in xs {
        let k = if op == Op::DistinctKey { key2(v) } else { v.clone() };
        if !seen.iter().any(|s| *s == k) {
          seen.push(k);
          out.push(v.clone());
        }
      }
      same(out)
    }
    Op::DistinctUntilChanged | Op::DistinctUntilKeyChanged => {
      let mut last: Option<Val> = None;
      let mut out = vec![];
      for v in xs {
        let k = if op == Op::DistinctUntilKeyChanged { key2(v) } else { v.clone() };
        let changed = match &last {
          None => true,
          Some(l) => *l != k,
        };
        if changed {
          last = Some(k);
          out.push(v.clone());
        }
      }
      same(out)
    }
    Op::Pairwise => {
      let mut out = vec![];
      for w in xs.windows(2) {
        out.push(Val::pair(w[0].clone(), w[1].clone()));
      }
      same(out)
    }
    Op::BufferWithCount => {
      let n = p.n.max(1);
      let mut out = vec![];
      let mut cur = vec![];
      for v in xs {
        cur.push(v.clone());
        if cur.len() >= n {
          out.push(Val::L(std::mem::take(&mut cur)));
        }
      }
      if completed && !cur.is_empty() {
        out.push(Val::L(cur));
      }
      same(out)
    }
    Op::Contains => {
      for v in xs {
        if *v == p.th {
          return Script { items: vec![Val::B(true)], term: Tm::Complete };
        }
      }
      if completed {
        same(vec![Val::B(false)])
      } else {
        same(vec![])
      }
    }
    Op::All => {
      for v in xs {
        if !pred(p.pk, &p.th, v) {
          return Script { items: vec![Val::B(false)], term: Tm::Complete };
        }
      }
      if completed {
        same(vec![Val::B(true)])
      } else {
        same(vec![])
      }
    }
    Op::Collect => {
      if completed {
        same(vec![Val::L(xs.clone())])
      } else {
        same(vec![])
      }
    }
    Op::CollectInto => {
      if completed {
        let mut v = vec![p.th.clone()];
        v.extend(xs.iter().cloned());
        same(vec![Val::L(v)])
      } else {
        same(vec![])
      }
    }
    Op::OnErrorMap => Script {
      items: xs.clone(),
      term: match t {
        Tm::Error(e) => Tm::Error(plus(e, &p.th)),
        o => o.clone(),
      },
    },
  }
}

/// does this operator's model have an alternative reading for these parameters?
pub fn has_alt(op: Op, p: &P) -> bool {
  matches!(op, Op::Take) && p.n == 0
}

/// Compare a probe log with the expected script: lengths and kinds concretely,
/// values as one boolean term for the solver.
pub fn compare(got: &[Ev], want: &Script) -> Result<u32, String> {
  let w = want.events();
  if got.len() != w.len() {
    return Err(format!("length {} vs expected {}", got.len(), w.len()));
  }
  let mut t = crate::val::tt();
  for (i, (g, x)) in got.iter().zip(w.iter()).enumerate() {
    match (g, x) {
      (Ev::Next(a), Ev::Next(b)) | (Ev::Err(a), Ev::Err(b)) => {
        t = crate::val::b_and(t, a.eq_t(b));
      }
      (Ev::Complete, Ev::Complete) => {}
      _ => return Err(format!("event {} kind differs", i)),
    }
  }
  Ok(t)
}

pub fn show_events(evs: &[Ev]) -> String {
  evs.iter().map(crate::world::show_ev).collect::<Vec<_>>().join(" ")
}

// ---------------------------------------------------------------- two-input timeline semantics

use crate::cat::Op2;

/// `timeline`: merged sequence of (side, event); side 0 = main/first input, 1 = other/notifier.
/// Events of a side after that side's own terminal are ignored (the hot handle drops them).
pub fn sem2(op: Op2, timeline: &[(usize, Ev)], alt: bool) -> Vec<Ev> {
  let mut out: Vec<Ev> = vec![];
  let mut done = false;
  let mut side_done = [false, false];
  let mut completed = [false, false];
  // state
  let mut qa: std::collections::VecDeque<Val> = Default::default();
  let mut qb: std::collections::VecDeque<Val> = Default::default();
  let mut la: Option<Val> = None;
  let mut lb: Option<Val> = None;
  let mut skipping = true;
  let mut pending: Option<Val> = None;
  let mut buf: Vec<Val> = vec![];
  macro_rules! term {
    ($e:expr) => {{
      if !done {
        out.push($e);
        done = true;
      }
    }};
  }
  for (side, ev) in timeline {
    let side = *side;
    if side_done[side] {
      continue;
    }
    if !matches!(ev, Ev::Next(_)) {
      side_done[side] = true;
    }
    if done {
      continue;
    }
    match op {
      Op2::Merge => match ev {
        Ev::Next(v) => out.push(Ev::Next(v.clone())),
        Ev::Err(e) => term!(Ev::Err(e.clone())),
        Ev::Complete => {
          completed[side] = true;
          if completed[0] && completed[1] {
            term!(Ev::Complete)
          }
        }
      },
      Op2::Zip => match ev {
        Ev::Next(v) => {
          if side == 0 {
            if let Some(b) = qb.pop_front() {
              out.push(Ev::Next(Val::pair(v.clone(), b)));
            } else {
              qa.push_back(v.clone());
            }
          } else if let Some(a) = qa.pop_front() {
            out.push(Ev::Next(Val::pair(a, v.clone())));
          } else {
            qb.push_back(v.clone());
          }
          if alt && ((completed[0] && qa.is_empty()) || (completed[1] && qb.is_empty())) {
            term!(Ev::Complete)
          }
        }
        Ev::Err(e) => term!(Ev::Err(e.clone())),
        Ev::Complete => {
          completed[side] = true;
          if completed[0] && completed[1] {
            term!(Ev::Complete)
          } else if alt && ((side == 0 && qa.is_empty()) || (side == 1 && qb.is_empty())) {
            term!(Ev::Complete)
          }
        }
      },
      Op2::CombineLatest => match ev {
        Ev::Next(v) => {
          if side == 0 {
            la = Some(v.clone())
          } else {
            lb = Some(v.clone())
          }
          if let (Some(a), Some(b)) = (&la, &lb) {
            out.push(Ev::Next(Val::pair(a.clone(), b.clone())));
          }
        }
        Ev::Err(e) => term!(Ev::Err(e.clone())),
        Ev::Complete => {
          completed[side] = true;
          if completed[0] && completed[1] {
            term!(Ev::Complete)
          }
        }
      },
      Op2::WithLatestFrom => match (side, ev) {
        (0, Ev::Next(v)) => {
          if let Some(b) = &lb {
            out.push(Ev::Next(Val::pair(v.clone(), b.clone())));
          }
        }
        (_, Ev::Next(v)) => lb = Some(v.clone()),
        (_, Ev::Err(e)) => term!(Ev::Err(e.clone())),
        (0, Ev::Complete) => term!(Ev::Complete),
        (_, Ev::Complete) => {}
      },
      Op2::TakeUntil => match (side, ev) {
        (0, Ev::Next(v)) => out.push(Ev::Next(v.clone())),
        (0, Ev::Err(e)) => term!(Ev::Err(e.clone())),
        (0, Ev::Complete) => term!(Ev::Complete),
        (_, Ev::Next(_)) => term!(Ev::Complete),
        (_, _) => {}
      },
      Op2::SkipUntil => match (side, ev) {
        (0, Ev::Next(v)) => {
          if !skipping {
            out.push(Ev::Next(v.clone()))
          }
        }
        (0, Ev::Err(e)) => term!(Ev::Err(e.clone())),
        (0, Ev::Complete) => term!(Ev::Complete),
        (_, Ev::Next(_)) => skipping = false,
        (_, Ev::Complete) => {
          if !alt {
            skipping = false
          }
        }
        (_, Ev::Err(_)) => {}
      },
      Op2::Sample => match (side, ev) {
        (0, Ev::Next(v)) => pending = Some(v.clone()),
        (_, Ev::Err(e)) => term!(Ev::Err(e.clone())),
        (0, Ev::Complete) => term!(Ev::Complete),
        (_, Ev::Next(_)) => {
          if let Some(v) = pending.take() {
            out.push(Ev::Next(v));
          }
        }
        (_, Ev::Complete) => {
          // the sampler's completion releases the pending value in this library; whether it
          // counts as a tick is not specified: the other reading keeps it
          if !alt {
            if let Some(v) = pending.take() {
              out.push(Ev::Next(v));
            }
          }
        }
      },
      Op2::Buffer => match (side, ev) {
        (0, Ev::Next(v)) => buf.push(v.clone()),
        (_, Ev::Err(e)) => term!(Ev::Err(e.clone())),
        (_, Ev::Complete) => {
          if !buf.is_empty() {
            out.push(Ev::Next(Val::L(std::mem::take(&mut buf))));
          }
          term!(Ev::Complete)
        }
        (_, Ev::Next(_)) => {
          if !buf.is_empty() {
            out.push(Ev::Next(Val::L(std::mem::take(&mut buf))));
          }
        }
      },
    }
  }
  out
}

pub fn has_alt2(op: Op2) -> bool {
  matches!(op, Op2::Zip | Op2::SkipUntil | Op2::Sample)
}

pub fn compare_events(got: &[Ev], want: &[Ev]) -> Result<u32, String> {
  if got.len() != want.len() {
    return Err(format!("length {} vs expected {}", got.len(), want.len()));
  }
  let mut t = crate::val::tt();
  for (i, (g, x)) in got.iter().zip(want.iter()).enumerate() {
    match (g, x) {
      (Ev::Next(a), Ev::Next(b)) | (Ev::Err(a), Ev::Err(b)) => {
        t = crate::val::b_and(t, a.eq_t(b));
      }
      (Ev::Complete, Ev::Complete) => {}
      _ => return Err(format!("event {} kind differs", i)),
    }
  }
  Ok(t)
}

// ---------------------------------------------------------------- oracle self-test against /repo's own test expectations

/// The reference interpreters are validated independently of the implementation: the inputs and
/// expected outputs of /repo's unit tests and doc examples (hand-extracted; the test is named in
/// each case) are pushed through `sem`. A disagreement means the *oracle* is wrong.
pub fn selftest() -> Vec<String> {
  fn ints(v: &[i64]) -> Vec<Val> {
    v.iter().map(|x| Val::c(*x)).collect()
  }
  fn range(a: i64, b: i64) -> Vec<Val> {
    (a..b).map(Val::c).collect()
  }
  fn p(n: usize, th: i64, pk: u32) -> P {
    P { n, th: Val::c(th), pk, vs: vec![], ctr: 0 }
  }
  let done = |items: Vec<Val>| Script { items, term: Tm::Complete };
  let mut cases: Vec<(&str, Op, P, Script, Script)> = vec![
    ("take::base_function", Op::Take, p(5, 0, 0), done(range(0, 100)), done(range(0, 5))),
    ("skip::base_function", Op::Skip, p(5, 0, 0), done(range(0, 100)), done(range(5, 100))),
    ("take_while::base_function", Op::TakeWhile, p(0, 5, 3), done(range(0, 100)), done(range(0, 5))),
    ("take_while::inclusive_case", Op::TakeWhileInclusive, p(0, 5, 3), done(range(0, 100)), done(range(0, 6))),
    ("skip_while::base_function", Op::SkipWhile, p(0, 95, 3), done(range(0, 100)), done(range(95, 100))),
    ("take_last::base_function", Op::TakeLast, p(5, 0, 0), done(range(0, 100)), done(range(95, 100))),
    ("skip_last::base_function", Op::SkipLast, p(5, 0, 0), done(range(0, 10)), done(range(0, 5))),
    ("skip_last::base_empty_function", Op::SkipLast, p(11, 0, 0), done(range(0, 10)), done(vec![])),
    ("distinct::distinct_until_changed", Op::DistinctUntilChanged, p(0, 0, 0), done(ints(&[1, 2, 2, 1, 2, 3])), done(ints(&[1, 2, 1, 2, 3]))),
    ("distinct::smoke (after map v%5)", Op::Distinct, p(0, 0, 0), done((0..20).map(|v| Val::c(v % 5)).collect()), done(range(0, 5))),
    ("scan::scan_initial", Op::ScanInitial, p(0, 100, 0), done(ints(&[1, 1, 1, 1, 1])), done(ints(&[101, 102, 103, 104, 105]))),
    ("scan::scan_initial_on_empty_observable", Op::ScanInitial, p(0, 100, 0), done(vec![]), done(vec![])),
    ("scan::scan_with_default", Op::Scan, p(0, 0, 0), done(ints(&[1, 1, 1, 1, 1])), done(ints(&[1, 2, 3, 4, 5]))),
    ("default_if_empty::base_function", Op::DefaultIfEmpty, p(0, 5, 0), done(ints(&[10])), done(ints(&[10]))),
    ("default_if_empty::base_empty_function", Op::DefaultIfEmpty, p(0, 5, 0), done(vec![]), done(ints(&[5]))),
    ("contains::contains_smoke (4)", Op::Contains, p(0, 4, 0), done(range(0, 10)), done(vec![Val::B(true)])),
    ("contains::contains_smoke (99)", Op::Contains, p(0, 99, 0), done(range(0, 10)), done(vec![Val::B(false)])),
    ("contains::contains_smoke (empty)", Op::Contains, p(0, 1, 0), done(vec![]), done(vec![Val::B(false)])),
    ("last::last_or_hundered_items", Op::LastOr, p(0, 200, 0), done(range(0, 100)), done(ints(&[99]))),
    ("last::last_or_no_items", Op::LastOr, p(0, 100, 0), done(vec![]), done(ints(&[100]))),
    ("last::last_one_item", Op::Last, p(0, 0, 0), done(range(0, 2)), done(ints(&[1]))),
    ("last::last_no_items", Op::Last, p(0, 0, 0), done(vec![]), done(vec![])),
    ("observable::first", Op::First, p(0, 0, 0), done(range(0, 2)), done(ints(&[0]))),
    ("observable::first_or (empty)", Op::FirstOr, p(0, 100, 0), done(vec![]), done(ints(&[100]))),
    ("observable::smoke_element_at", Op::ElementAt, p(2, 0, 0), done(range(0, 20)), done(ints(&[2]))),
    ("observable::smoke_ignore_elements", Op::IgnoreElements, p(0, 0, 0), done(range(0, 20)), done(vec![])),
    ("ops::reduce_initial", Op::ReduceInitial, p(0, 100, 0), done(ints(&[1, 1, 1, 1, 1])), done(ints(&[105]))),
    ("ops::reduce_initial_on_empty_observable", Op::ReduceInitial, p(0, 100, 0), done(vec![]), done(ints(&[100]))),
    ("ops::reduce", Op::Reduce, p(0, 0, 0), done(ints(&[1, 1, 1, 1, 1])), done(ints(&[5]))),
    ("ops::reduce_on_empty_observable", Op::Reduce, p(0, 0, 0), done(vec![]), done(ints(&[0]))),
    ("ops::count", Op::Count, p(0, 0, 0), done(ints(&[7, 8, 9])), done(ints(&[3]))),
    ("ops::count_on_empty_observable", Op::Count, p(0, 0, 0), done(vec![]), done(ints(&[0]))),
    ("ops::sum", Op::Sum, p(0, 0, 0), done(ints(&[1, 1, 1, 1, 1])), done(ints(&[5]))),
    ("ops::sum_on_empty_observable", Op::Sum, p(0, 0, 0), done(vec![]), done(ints(&[0]))),
    ("ops::max_of_floats (integers)", Op::Max, p(0, 0, 0), done(ints(&[3, 4, 7, 5, 6])), done(ints(&[7]))),
    ("ops::min_of_floats (integers)", Op::Min, p(0, 0, 0), done(ints(&[3, 4, 7, 5, 6])), done(ints(&[3]))),
    ("ops::max_on_empty_observable", Op::Max, p(0, 0, 0), done(vec![]), done(vec![])),
    ("ops::average_of_floats (integers)", Op::Average, p(0, 0, 0), done(ints(&[3, 4, 5, 6, 7])), done(ints(&[5]))),
    ("ops::average_on_empty_observable", Op::Average, p(0, 0, 0), done(vec![]), done(vec![])),
    ("buffer::it_shall_buffer_with_count", Op::BufferWithCount, p(2, 0, 0), done(range(0, 6)), done(vec![Val::L(range(0, 2)), Val::L(range(2, 4)), Val::L(range(4, 6))])),
    ("buffer::it_shall_emit_buffer_on_completed", Op::BufferWithCount, p(2, 0, 0), done(range(0, 5)), done(vec![Val::L(range(0, 2)), Val::L(range(2, 4)), Val::L(range(4, 5))])),
    ("collect::collect_test", Op::Collect, p(0, 0, 0), done(ints(&[1, 2, 3])), done(vec![Val::L(ints(&[1, 2, 3]))])),
    ("collect::collect_empty_test", Op::Collect, p(0, 0, 0), done(vec![]), done(vec![Val::L(vec![])])),
    ("observable::smoke_all (false)", Op::All, p(0, 5, 3), done(range(0, 10)), done(vec![Val::B(false)])),
    ("observable::smoke_all (true)", Op::All, p(0, 5, 3), done(range(0, 5)), done(vec![Val::B(true)])),
  ];
  // errors: an input error is the only terminal, no aggregate accompanies it (buffer::it_shall_discard_buffer_on_error, collect_with_err_test)
  let err = |items: Vec<Val>| Script { items, term: Tm::Error(Val::c(-1)) };
  cases.push(("buffer::it_shall_discard_buffer_on_error", Op::BufferWithCount, p(3, 0, 0), err(range(0, 2)), err(vec![])));
  cases.push(("collect::collect_with_err_test", Op::Collect, p(0, 0, 0), err(range(0, 2)), err(vec![])));
  let mut sw = p(0, 0, 0);
  sw.vs = ints(&[-1, 0]);
  cases.push(("start_with::simple_integer", Op::StartWith, sw, done(ints(&[1, 2, 3])), done(ints(&[-1, 0, 1, 2, 3]))));
  let mut bad = vec![];
  for (name, op, p, input, want) in cases {
    let got = sem(op, &p, &input, false);
    let same = got.items.len() == want.items.len()
      && got.items.iter().zip(want.items.iter()).all(|(a, b)| a.eq_t(b) == crate::val::tt())
      && std::mem::discriminant(&got.term) == std::mem::discriminant(&want.term);
    if !same {
      bad.push(format!("{}: oracle gives [{}] but /repo's test expects [{}]", name, got.show(), want.show()));
    }
  }
  // pairwise::smoke
  let got = sem(Op::Pairwise, &p(0, 0, 0), &done(range(0, 10)), false);
  if got.items.len() != 9 || got.items[0].eq_t(&Val::pair(Val::c(0), Val::c(1))) != crate::val::tt() {
    bad.push("pairwise::smoke: oracle disagrees".to_string());
  }
  bad
}
