//! `Sym`: the symbolic integer rxRust is instantiated with; `Val`: a universal
//! item type (so that operator chains can be composed at run time through the
//! library's own boxed observables).
use crate::engine::{self as e, Term};
use std::cmp::Ordering;
use std::hash::{Hash, Hasher};

#[derive(Clone, Copy)]
pub struct Sym(pub u32);

impl std::fmt::Debug for Sym {
  fn fmt(&self, f: &mut std::fmt::Formatter<'_>) -> std::fmt::Result {
    if std::thread::panicking() {
      return write!(f, "<sym>");
    }
    write!(f, "{}", e::smt(self.0))
  }
}

pub fn tt() -> u32 {
  e::mk(Term::True)
}
pub fn ff() -> u32 {
  e::mk(Term::False)
}
pub fn b_const(b: bool) -> u32 {
  if b {
    tt()
  } else {
    ff()
  }
}
pub fn b_not(a: u32) -> u32 {
  match e::term(a) {
    Term::True => ff(),
    Term::False => tt(),
    Term::Not(x) => x,
    _ => e::mk(Term::Not(a)),
  }
}
pub fn b_and(a: u32, b: u32) -> u32 {
  match (e::term(a), e::term(b)) {
    (Term::False, _) | (_, Term::False) => ff(),
    (Term::True, _) => b,
    (_, Term::True) => a,
    _ => e::mk(Term::And(a, b)),
  }
}
pub fn b_or(a: u32, b: u32) -> u32 {
  match (e::term(a), e::term(b)) {
    (Term::True, _) | (_, Term::True) => tt(),
    (Term::False, _) => b,
    (_, Term::False) => a,
    _ => e::mk(Term::Or(a, b)),
  }
}

impl Sym {
  pub fn var() -> Sym {
    Sym(e::fresh_var())
  }
  pub fn c(v: i64) -> Sym {
    Sym(e::mk(Term::Const(v)))
  }
  pub fn konst(self) -> Option<i64> {
    e::konst(self.0)
  }
  pub fn eq_t(self, o: Sym) -> u32 {
    if self.0 == o.0 {
      return tt();
    }
    match (self.konst(), o.konst()) {
      (Some(a), Some(b)) => b_const(a == b),
      _ => e::mk(Term::Eq(self.0, o.0)),
    }
  }
  pub fn lt_t(self, o: Sym) -> u32 {
    if self.0 == o.0 {
      return ff();
    }
    match (self.konst(), o.konst()) {
      (Some(a), Some(b)) => b_const(a < b),
      _ => e::mk(Term::Lt(self.0, o.0)),
    }
  }
  pub fn le_t(self, o: Sym) -> u32 {
    if self.0 == o.0 {
      return tt();
    }
    match (self.konst(), o.konst()) {
      (Some(a), Some(b)) => b_const(a <= b),
      _ => e::mk(Term::Le(self.0, o.0)),
    }
  }
  pub fn add(self, o: Sym) -> Sym {
    match (self.konst(), o.konst()) {
      (Some(a), Some(b)) => Sym::c(a.wrapping_add(b)),
      (Some(0), _) => o,
      (_, Some(0)) => self,
      _ => Sym(e::mk(Term::Add(self.0, o.0))),
    }
  }
  pub fn sub(self, o: Sym) -> Sym {
    match (self.konst(), o.konst()) {
      (Some(a), Some(b)) => Sym::c(a.wrapping_sub(b)),
      (_, Some(0)) => self,
      _ => Sym(e::mk(Term::Sub(self.0, o.0))),
    }
  }
  pub fn mulc(self, k: i64) -> Sym {
    match self.konst() {
      Some(a) => Sym::c(a.wrapping_mul(k)),
      None => Sym(e::mk(Term::MulC(k, self.0))),
    }
  }
  pub fn divc(self, k: i64) -> Sym {
    assert!(k > 0);
    match self.konst() {
      Some(a) => Sym::c(a.div_euclid(k)),
      None => Sym(e::mk(Term::DivC(self.0, k))),
    }
  }
  pub fn modc(self, k: i64) -> Sym {
    assert!(k > 0);
    match self.konst() {
      Some(a) => Sym::c(a.rem_euclid(k)),
      None => Sym(e::mk(Term::ModC(self.0, k))),
    }
  }
  pub fn ite(c: u32, a: Sym, b: Sym) -> Sym {
    match e::term(c) {
      Term::True => a,
      Term::False => b,
      _ => Sym(e::mk(Term::Ite(c, a.0, b.0))),
    }
  }
  /// forking comparisons (what the code under test sees)
  pub fn is_eq(self, o: Sym) -> bool {
    e::branch(self.eq_t(o))
  }
  pub fn is_lt(self, o: Sym) -> bool {
    e::branch(self.lt_t(o))
  }
}

impl PartialEq for Sym {
  fn eq(&self, o: &Sym) -> bool {
    self.is_eq(*o)
  }
}
impl Eq for Sym {}
impl PartialOrd for Sym {
  fn partial_cmp(&self, o: &Sym) -> Option<Ordering> {
    Some(self.cmp(o))
  }
  fn lt(&self, o: &Sym) -> bool {
    self.is_lt(*o)
  }
  fn gt(&self, o: &Sym) -> bool {
    o.is_lt(*self)
  }
  fn le(&self, o: &Sym) -> bool {
    e::branch(self.le_t(*o))
  }
  fn ge(&self, o: &Sym) -> bool {
    e::branch(o.le_t(*self))
  }
}
impl Ord for Sym {
  fn cmp(&self, o: &Sym) -> Ordering {
    if self.is_lt(*o) {
      Ordering::Less
    } else if self.is_eq(*o) {
      Ordering::Equal
    } else {
      Ordering::Greater
    }
  }
}
impl Hash for Sym {
  // constant hash: every bucket probe becomes a solver-decided `==`
  fn hash<H: Hasher>(&self, _: &mut H) {}
}
impl Default for Sym {
  fn default() -> Self {
    Sym::c(0)
  }
}
impl std::ops::Add for Sym {
  type Output = Sym;
  fn add(self, o: Sym) -> Sym {
    Sym::add(self, o)
  }
}
impl std::ops::Mul<f64> for Sym {
  type Output = Sym;
  /// `x * (1.0 / n)` as used by `average`: integer division by n. IEEE
  /// behaviour is outside the claim.
  fn mul(self, f: f64) -> Sym {
    let n = (1.0 / f).round() as i64;
    if n >= 1 && ((1.0 / n as f64) - f).abs() < 1e-12 {
      self.divc(n)
    } else {
      self.mulc(f.round() as i64)
    }
  }
}

// ---------------------------------------------------------------- Val

#[derive(Clone, Debug)]
pub enum Val {
  S(Sym),
  B(bool),
  Unit,
  P(Box<Val>, Box<Val>),
  L(Vec<Val>),
  O(Option<Box<Val>>),
}

impl Val {
  pub fn c(v: i64) -> Val {
    Val::S(Sym::c(v))
  }
  pub fn var() -> Val {
    Val::S(Sym::var())
  }
  pub fn pair(a: Val, b: Val) -> Val {
    Val::P(Box::new(a), Box::new(b))
  }
  pub fn sym(&self) -> Sym {
    match self {
      Val::S(s) => *s,
      Val::B(b) => Sym::c(*b as i64),
      _ => Sym::c(-7777),
    }
  }
  /// non-forking structural equality as a boolean term
  pub fn eq_t(&self, o: &Val) -> u32 {
    match (self, o) {
      (Val::S(a), Val::S(b)) => a.eq_t(*b),
      (Val::B(a), Val::B(b)) => b_const(a == b),
      (Val::Unit, Val::Unit) => tt(),
      (Val::P(a, b), Val::P(c, d)) => b_and(a.eq_t(c), b.eq_t(d)),
      (Val::L(a), Val::L(b)) => {
        if a.len() != b.len() {
          return ff();
        }
        let mut t = tt();
        for (x, y) in a.iter().zip(b.iter()) {
          t = b_and(t, x.eq_t(y));
        }
        t
      }
      (Val::O(None), Val::O(None)) => tt(),
      (Val::O(Some(a)), Val::O(Some(b))) => a.eq_t(b),
      _ => ff(),
    }
  }
  pub fn show(&self) -> String {
    format!("{:?}", self)
  }
}

impl PartialEq for Val {
  fn eq(&self, o: &Val) -> bool {
    match (self, o) {
      (Val::S(a), Val::S(b)) => a == b,
      (Val::B(a), Val::B(b)) => a == b,
      (Val::Unit, Val::Unit) => true,
      (Val::P(a, b), Val::P(c, d)) => a == c && b == d,
      (Val::L(a), Val::L(b)) => a.len() == b.len() && a.iter().zip(b.iter()).all(|(x, y)| x == y),
      (Val::O(a), Val::O(b)) => match (a, b) {
        (None, None) => true,
        (Some(x), Some(y)) => x == y,
        _ => false,
      },
      _ => false,
    }
  }
}
impl Eq for Val {}
impl Hash for Val {
  fn hash<H: Hasher>(&self, _: &mut H) {}
}
impl PartialOrd for Val {
  fn partial_cmp(&self, o: &Val) -> Option<Ordering> {
    match (self, o) {
      (Val::S(a), Val::S(b)) => a.partial_cmp(b),
      _ => None,
    }
  }
  fn lt(&self, o: &Val) -> bool {
    match (self, o) {
      (Val::S(a), Val::S(b)) => a < b,
      _ => false,
    }
  }
  fn gt(&self, o: &Val) -> bool {
    match (self, o) {
      (Val::S(a), Val::S(b)) => a > b,
      _ => false,
    }
  }
}
impl Default for Val {
  fn default() -> Self {
    Val::c(0)
  }
}
impl std::ops::Add for Val {
  type Output = Val;
  fn add(self, o: Val) -> Val {
    Val::S(self.sym() + o.sym())
  }
}
impl std::ops::Mul<f64> for Val {
  type Output = Val;
  fn mul(self, f: f64) -> Val {
    Val::S(self.sym() * f)
  }
}

pub trait IntoVal {
  fn into_val(self) -> Val;
}
impl IntoVal for Val {
  fn into_val(self) -> Val {
    self
  }
}
impl IntoVal for Sym {
  fn into_val(self) -> Val {
    Val::S(self)
  }
}
impl IntoVal for bool {
  fn into_val(self) -> Val {
    Val::B(self)
  }
}
impl IntoVal for usize {
  fn into_val(self) -> Val {
    Val::c(self as i64)
  }
}
impl IntoVal for i64 {
  fn into_val(self) -> Val {
    Val::c(self)
  }
}
impl IntoVal for () {
  fn into_val(self) -> Val {
    Val::Unit
  }
}
impl IntoVal for std::convert::Infallible {
  fn into_val(self) -> Val {
    Val::Unit
  }
}
impl<A: IntoVal, B: IntoVal> IntoVal for (A, B) {
  fn into_val(self) -> Val {
    Val::pair(self.0.into_val(), self.1.into_val())
  }
}
impl<A: IntoVal> IntoVal for Vec<A> {
  fn into_val(self) -> Val {
    Val::L(self.into_iter().map(|v| v.into_val()).collect())
  }
}
impl<A: IntoVal> IntoVal for Option<A> {
  fn into_val(self) -> Val {
    Val::O(self.map(|v| Box::new(v.into_val())))
  }
}
impl<'a, A: IntoVal + Clone> IntoVal for &'a mut A {
  fn into_val(self) -> Val {
    self.clone().into_val()
  }
}
impl<'a, A: IntoVal + Clone> IntoVal for &'a A {
  fn into_val(self) -> Val {
    self.clone().into_val()
  }
}
