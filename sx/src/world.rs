//! Environment model used by the harnesses (not rxRust code): logical clock,
//! probe logs, virtual time and timers, the "any ready task may run next"
//! executor, logical threads with nested pre-emption at lock acquisitions, and
//! the lock-discipline monitor.
use crate::engine as e;
use crate::val::{IntoVal, Val};
use rxrust::prelude::*;
use rxrust::scheduler::verif::{LocalBoxedTask, SpawnSink, VerifScheduler};
use rxrust::verif_sync::{self, LockEvent};
use std::cell::RefCell;
use std::collections::{BTreeSet, VecDeque};
use std::future::Future;
use std::pin::Pin;
use std::sync::atomic::{AtomicBool, Ordering};
use std::sync::Arc;
use std::task::{Context, Poll, Wake, Waker};
use std::time::Duration;

#[derive(Clone, Debug)]
pub enum Ev {
  Next(Val),
  Err(Val),
  Complete,
}

#[derive(Clone, Debug)]
pub struct Rec {
  pub ev: Ev,
  pub tick: u64,
  pub vtime: u64,
  pub thread: usize,
  /// the driver step (see `step()`) during which the notification arrived; 0 where the harness does not count steps
  pub step: u64,
}

#[derive(Default)]
pub struct ProbeState {
  pub log: Vec<Rec>,
  pub terminated: bool,
  pub silenced_at: Option<(u64, &'static str)>, // tick from which any delivery is a violation, and why
  pub in_callback: bool,
  pub required_lock: Option<usize>,
  /// Eraser lockset: intersection of the lock sets held at every callback so far (None = no callback yet)
  pub lockset: Option<Vec<usize>>,
}

pub struct TimerSlot {
  pub due: u64,
  pub created: u64,
  pub dur: u64,
  pub waker: Option<Waker>,
}

pub struct TaskSlot {
  pub fut: Option<LocalBoxedTask>,
  pub ready: Arc<AtomicBool>,
  pub done: bool,
  pub polls: u32,
}

struct FlagWaker(Arc<AtomicBool>);
impl Wake for FlagWaker {
  fn wake(self: Arc<Self>) {
    self.0.store(true, Ordering::SeqCst);
  }
  fn wake_by_ref(self: &Arc<Self>) {
    self.0.store(true, Ordering::SeqCst);
  }
}

pub type Op = Box<dyn FnOnce()>;

#[derive(Default)]
pub struct Threads {
  pub enabled: bool,
  pub pending: Vec<VecDeque<Op>>,
  pub active: Vec<bool>,
  pub current: usize,
  pub depth: usize,
  pub max_depth: usize,
  pub preemptions: u32,
  pub max_preemptions: u32,
  pub blocked_pruned: u64,
  // lock monitor
  pub held: Vec<Vec<usize>>,                 // per logical thread: stack of held lock ids
  pub owner: Vec<(usize, usize)>,            // (lock id, thread)
  pub waiting_for: Vec<Option<usize>>,       // per thread: lock it is about to acquire (suspended at Before)
  pub edges: BTreeSet<(usize, usize, usize)>, // (held, acquired, thread)
  pub lock_names: Vec<usize>,                // normalised lock ids in order of first use
  pub lockset_check: bool,
}

#[derive(Default)]
pub struct World {
  pub tick: u64,
  pub now: u64,
  pub probes: Vec<ProbeState>,
  pub timers: Vec<TimerSlot>,
  pub timer_requests: Vec<(u64, u64)>, // (at vtime, duration)
  pub tasks: Vec<TaskSlot>,
  pub threads: Threads,
  pub counters: Vec<i64>,
  pub yield_hits: Vec<usize>,
  pub yield_handler: Option<Box<dyn FnMut(usize)>>,
  pub in_yield: bool,
  /// harness callback run from inside every probe notification (after it was logged)
  pub on_probe_event: Option<Box<dyn FnMut(&Ev)>>,
}

thread_local! {
  pub static W: RefCell<World> = RefCell::new(World::default());
}

pub fn w<R>(f: impl FnOnce(&mut World) -> R) -> R {
  W.with(|x| f(&mut x.borrow_mut()))
}

pub fn reset_world() {
  set_deadlock_ctx("");
  STEP.with(|s| s.set(0));
  DECOUPLED.with(|d| d.set(false));
  OP_KIND.with(|d| d.set([0; 4]));
  hooks_disable();
  crate::cat::reset_handles();
  crate::h_subject::reset();
  // Dropping tasks may run rxRust destructors which call back into the world:
  // take things out first, drop them outside the borrow.
  let old = W.with(|x| std::mem::take(&mut *x.borrow_mut()));
  let r = std::panic::catch_unwind(std::panic::AssertUnwindSafe(move || drop(old)));
  let _ = r;
  W.with(|x| *x.borrow_mut() = World::default());
}

/// did any probe receive a notification on this path (or any harness counter move)?
pub fn any_delivery() -> bool {
  W.with(|x| x.try_borrow().map_or(false, |w| w.probes.iter().any(|p| !p.log.is_empty()) || w.counters.iter().any(|c| *c != 0)))
}

pub fn tick() -> u64 {
  w(|w| {
    w.tick += 1;
    w.tick
  })
}

pub fn now() -> u64 {
  w(|w| w.now)
}

pub fn counter(i: usize) -> i64 {
  w(|w| w.counters.get(i).copied().unwrap_or(0))
}
pub fn bump(i: usize) -> i64 {
  w(|w| {
    if w.counters.len() <= i {
      w.counters.resize(i + 1, 0);
    }
    w.counters[i] += 1;
    w.counters[i]
  })
}
pub fn set_counter(i: usize, v: i64) {
  w(|w| {
    if w.counters.len() <= i {
      w.counters.resize(i + 1, 0);
    }
    w.counters[i] = v;
  })
}

pub fn classify_panic(msg: &str) -> String {
  let m = msg.to_lowercase();
  if m.contains("already borrowed") || m.contains("already mutably borrowed") {
    "panic/refcell-double-borrow".to_string()
  } else if m.contains("verif_sync") {
    "would-block/lock-reacquired".to_string()
  } else if m.contains("sx:") {
    format!("engine/{}", msg.chars().take(60).collect::<String>())
  } else if m.contains("unwrap") {
    "panic/unwrap".to_string()
  } else {
    format!("panic/{}", msg.chars().filter(|c| c.is_ascii_alphanumeric() || *c == ' ').take(40).collect::<String>().replace(' ', "-"))
  }
}

// ---------------------------------------------------------------- probes

#[derive(Clone, Copy, Debug)]
pub struct Probe {
  pub id: usize,
}

pub fn new_probe() -> Probe {
  w(|w| {
    w.probes.push(ProbeState::default());
    Probe { id: w.probes.len() - 1 }
  })
}

impl Probe {
  fn record(&self, ev: Ev) {
    if std::thread::panicking() {
      return;
    }
    e::reraise_if_aborting();
    let id = self.id;
    enum Bad {
      AfterTerminal,
      AfterUnsub(u64, &'static str),
      Overlap,
      Lockset,
    }
    let bad = w(|w| {
      w.tick += 1;
      let tick = w.tick;
      let vtime = w.now;
      let thread = w.threads.current;
      let mut held_ok = match w.probes[id].required_lock {
        Some(l) => w.threads.held.get(thread).map_or(false, |h| h.contains(&l)),
        None => true,
      };
      if w.threads.lockset_check {
        let held: Vec<usize> = w.threads.held.get(thread).cloned().unwrap_or_default();
        let ls = match w.probes[id].lockset.take() {
          None => held,
          Some(prev) => prev.into_iter().filter(|l| held.contains(l)).collect(),
        };
        if ls.is_empty() {
          held_ok = false;
        }
        w.probes[id].lockset = Some(ls);
      }
      let p = &mut w.probes[id];
      let mut bad = None;
      if p.terminated {
        bad = Some(Bad::AfterTerminal);
      } else if let Some((t, why)) = p.silenced_at {
        bad = Some(Bad::AfterUnsub(t, why));
      } else if p.in_callback {
        bad = Some(Bad::Overlap);
      } else if !held_ok {
        bad = Some(Bad::Lockset);
      }
      if !matches!(ev, Ev::Next(_)) {
        p.terminated = true;
      }
      let step = STEP.with(|s| s.get());
      p.log.push(Rec { ev: ev.clone(), tick, vtime, thread, step });
      bad
    });
    e::note(format!("p{}<-{}", id, show_ev(&ev)));
    match bad {
      Some(Bad::AfterTerminal) => e::fail("grammar/event-after-terminal", || format!("probe {} got {} after its terminal", id, show_ev(&ev))),
      Some(Bad::AfterUnsub(t, why)) => e::fail(why, || format!("probe {} got {} although silenced at tick {} ({})", id, show_ev(&ev), t, why)),
      Some(Bad::Overlap) => e::fail("overlapping-callback", || format!("probe {} entered on two logical threads at once", id)),
      Some(Bad::Lockset) => e::fail("lockset/callback-without-slot-lock", || format!("probe {} called without its slot lock held", id)),
      None => {}
    }
    // a harness action from inside the subscriber's handler (e.g. another thread polling a waiter)
    let hook = w(|w| w.on_probe_event.take());
    if let Some(mut h) = hook {
      h(&ev);
      w(|w| {
        if w.on_probe_event.is_none() {
          w.on_probe_event = Some(h)
        }
      });
    }
    // a pre-emption point inside the callback (only acts in threaded harnesses)
    let threaded = w(|w| w.threads.enabled);
    if threaded {
      w(|w| w.probes[id].in_callback = true);
      maybe_preempt();
      w(|w| {
        if let Some(p) = w.probes.get_mut(id) {
          p.in_callback = false
        }
      });
    }
  }
  pub fn log(&self) -> Vec<Rec> {
    w(|w| w.probes[self.id].log.clone())
  }
  pub fn events(&self) -> Vec<Ev> {
    w(|w| w.probes[self.id].log.iter().map(|r| r.ev.clone()).collect())
  }
  pub fn len(&self) -> usize {
    w(|w| w.probes[self.id].log.len())
  }
  pub fn terminated(&self) -> bool {
    w(|w| w.probes[self.id].terminated)
  }
  /// from now on any delivery is a C02 violation
  pub fn silence(&self) {
    self.forbid("delivery-after-unsubscribe")
  }
  /// from now on any delivery is a violation with this key
  pub fn forbid(&self, why: &'static str) {
    w(|w| {
      let t = w.tick;
      if w.probes[self.id].silenced_at.is_none() {
        w.probes[self.id].silenced_at = Some((t, why))
      }
    })
  }
}

pub fn show_ev(e: &Ev) -> String {
  match e {
    Ev::Next(v) => format!("next({})", v.show()),
    Ev::Err(v) => format!("error({})", v.show()),
    Ev::Complete => "complete".to_string(),
  }
}

impl<T: IntoVal, E: IntoVal> Observer<T, E> for Probe {
  fn next(&mut self, value: T) {
    self.record(Ev::Next(value.into_val()))
  }
  fn error(self, err: E) {
    self.record(Ev::Err(err.into_val()))
  }
  fn complete(self) {
    self.record(Ev::Complete)
  }
  fn is_finished(&self) -> bool {
    w(|w| w.probes[self.id].terminated)
  }
}

// ---------------------------------------------------------------- virtual time

/// One virtual time unit is 900 microseconds: a one-unit delay is a non-zero
/// sub-millisecond `Duration`, two units are 1.8 ms, so code that rounds
/// durations to whole milliseconds or seconds is exercised by every harness.
pub const UNIT_US: u64 = 900;
pub fn dur_units(d: Duration) -> u64 {
  let us = d.as_micros() as u64;
  (us + UNIT_US - 1) / UNIT_US
}
pub fn units(n: u64) -> Duration {
  Duration::from_micros(n * UNIT_US)
}

pub struct TimerFut {
  id: usize,
}

impl Future for TimerFut {
  type Output = ();
  fn poll(self: Pin<&mut Self>, cx: &mut Context<'_>) -> Poll<()> {
    let id = self.id;
    w(|w| {
      if id >= w.timers.len() {
        // world was reset under us (path aborted): never fire
        return Poll::Pending;
      }
      if w.timers[id].due <= w.now {
        Poll::Ready(())
      } else {
        w.timers[id].waker = Some(cx.waker().clone());
        Poll::Pending
      }
    })
  }
}

/// Installed as rxRust's pluggable timer function (`NEW_TIMER_FN`).
pub fn virtual_timer(d: Duration) -> futures::future::BoxFuture<'static, ()> {
  let id = w(|w| {
    let dur = dur_units(d);
    let now = w.now;
    // requests are logged in milliseconds of the asked Duration (what the _at checks compare)
    w.timer_requests.push((now, d.as_millis() as u64));
    w.timers.push(TimerSlot { due: now + dur, created: now, dur, waker: None });
    w.timers.len() - 1
  });
  Box::pin(TimerFut { id })
}

/// Advance virtual time and wake every timer that fell due.
pub fn advance(dt: u64) {
  e::reraise_if_aborting();
  let wakers: Vec<Waker> = w(|w| {
    w.now += dt;
    let now = w.now;
    let mut v = vec![];
    for t in w.timers.iter_mut() {
      if t.due <= now {
        if let Some(wk) = t.waker.take() {
          v.push(wk);
        }
      }
    }
    v
  });
  for wk in wakers {
    wk.wake();
  }
}

pub fn next_deadline() -> Option<u64> {
  w(|w| w.timers.iter().filter(|t| t.due > w.now && t.waker.is_some()).map(|t| t.due).min())
}

pub fn pending_timers() -> usize {
  w(|w| w.timers.iter().filter(|t| t.waker.is_some()).count())
}

pub fn init_process() {
  let _ = rxrust::scheduler::NEW_TIMER_FN.set(virtual_timer);
  // Silent, but remembered: rxRust's scheduler wraps every task in catch_unwind and keeps the panic in the task
  // handle, so a panic (or the lock model's "would block") inside a scheduled task would otherwise vanish.
  // Engine aborts use resume_unwind and never come through here.
  std::panic::set_hook(Box::new(|info| {
    let msg = if let Some(s) = info.payload().downcast_ref::<&str>() {
      s.to_string()
    } else if let Some(s) = info.payload().downcast_ref::<String>() {
      s.clone()
    } else {
      "panic (non-string payload)".to_string()
    };
    PANICS.with(|p| {
      if let Ok(mut p) = p.try_borrow_mut() {
        if p.len() < 4 {
          p.push(msg)
        }
      }
    });
  }));
}

thread_local! {
  pub static PANICS: RefCell<Vec<String>> = RefCell::new(vec![]);
  /// suffix a harness may give to the deadlock key (which composition, which extra operation)
  pub static DEADLOCK_CTX: RefCell<String> = RefCell::new(String::new());
}
thread_local! {
  /// the pipeline under test promises that the producer never waits for the consumer (observe_on, delay)
  pub static DECOUPLED: std::cell::Cell<bool> = std::cell::Cell::new(false);
  /// what each logical thread's current operation is: 0 other, 1 next() into a source, 2 the pool worker polling
  pub static OP_KIND: std::cell::Cell<[u8; 4]> = std::cell::Cell::new([0; 4]);
}
/// run `f` with the current logical thread's operation kind set (restored afterwards, also for a pre-empted operation)
pub fn with_op_kind(kind: u8, f: impl FnOnce()) {
  let cur = w(|w| w.threads.current).min(3);
  let mut k = OP_KIND.with(|d| d.get());
  let was = k[cur];
  k[cur] = kind;
  OP_KIND.with(|d| d.set(k));
  f();
  let mut k = OP_KIND.with(|d| d.get());
  k[cur] = was;
  OP_KIND.with(|d| d.set(k));
}
thread_local! {
  /// counts the driver's actions (a source event, an executor run, a clock move) in harnesses that call `step()`
  pub static STEP: std::cell::Cell<u64> = std::cell::Cell::new(0);
}
pub fn step() {
  STEP.with(|s| s.set(s.get() + 1));
}
pub fn set_deadlock_ctx(s: &str) {
  DEADLOCK_CTX.with(|c| *c.borrow_mut() = s.to_string());
}
pub fn take_panics() -> Vec<String> {
  PANICS.with(|p| p.try_borrow_mut().map(|mut p| std::mem::take(&mut *p)).unwrap_or_default())
}

// ---------------------------------------------------------------- ANY executor

#[derive(Clone, Copy)]
pub struct Sink;
impl SpawnSink for Sink {
  fn spawn(&self, fut: LocalBoxedTask) {
    w(|w| {
      w.tasks.push(TaskSlot { fut: Some(fut), ready: Arc::new(AtomicBool::new(true)), done: false, polls: 0 });
    })
  }
}
// The _threads operators want `Send` schedulers; the sink is a ZST.
pub type AnySched = VerifScheduler<Sink>;
pub fn any_sched() -> AnySched {
  VerifScheduler(Sink)
}

pub fn ready_tasks() -> Vec<usize> {
  w(|w| {
    w.tasks
      .iter()
      .enumerate()
      .filter(|(_, t)| !t.done && t.fut.is_some() && t.ready.load(Ordering::SeqCst))
      .map(|(i, _)| i)
      .collect()
  })
}

pub fn live_tasks() -> usize {
  w(|w| w.tasks.iter().filter(|t| !t.done).count())
}

/// Poll task `i` once.
pub fn poll_task(i: usize) {
  let (fut, flag) = w(|w| {
    let t = &mut w.tasks[i];
    t.ready.store(false, Ordering::SeqCst);
    t.polls += 1;
    (t.fut.take(), t.ready.clone())
  });
  if let Some(mut fut) = fut {
    let waker = Waker::from(Arc::new(FlagWaker(flag)));
    let mut cx = Context::from_waker(&waker);
    let r = fut.as_mut().poll(&mut cx);
    // rxRust's `Remote` catches panics raised inside a task: continue an engine abort
    e::reraise_if_aborting();
    match r {
      Poll::Ready(()) => {
        w(|w| {
          if let Some(t) = w.tasks.get_mut(i) {
            t.done = true
          }
        });
        drop(fut);
      }
      Poll::Pending => w(|w| {
        if let Some(t) = w.tasks.get_mut(i) {
          t.fut = Some(fut)
        }
      }),
    }
  }
}

/// Run ready tasks until none is ready, the order chosen by the solver-visible `choose`.
pub fn run_any_until_stalled(max_polls: usize) {
  let mut n = 0;
  loop {
    let r = ready_tasks();
    if r.is_empty() {
      return;
    }
    if n >= max_polls {
      e::prune();
    }
    let k = e::choose(r.len() as u32) as usize;
    poll_task(r[k]);
    n += 1;
  }
}

/// Poll ready tasks in spawn order, at most `max_polls` polls; returns whether it stalled.
pub fn run_fifo_bounded(max_polls: usize) -> bool {
  for _ in 0..max_polls {
    let r = ready_tasks();
    if r.is_empty() {
      return true;
    }
    poll_task(r[0]);
  }
  ready_tasks().is_empty()
}

/// Run ready tasks in spawn order (FIFO) until stalled.
pub fn run_fifo_until_stalled(max_polls: usize) {
  let mut n = 0;
  loop {
    let r = ready_tasks();
    if r.is_empty() {
      return;
    }
    if n >= max_polls {
      e::prune();
    }
    poll_task(r[0]);
    n += 1;
  }
}

// ---------------------------------------------------------------- logical threads

pub fn threads_enable(nthreads: usize, max_preemptions: u32) {
  w(|w| {
    let t = &mut w.threads;
    t.enabled = true;
    t.pending = (0..nthreads).map(|_| VecDeque::new()).collect();
    t.active = vec![false; nthreads];
    t.held = vec![vec![]; nthreads];
    t.waiting_for = vec![None; nthreads];
    t.max_depth = 2;
    t.max_preemptions = max_preemptions;
  });
  verif_sync::set_lock_hook(Some(lock_hook));
  verif_sync::set_yield_hook(Some(yield_hook));
}

/// monitor only (no pre-emption): records held locks and order edges for `nthreads`
/// logical threads whose operations the harness runs one after the other
pub fn lock_monitor_enable(nthreads: usize) {
  w(|w| {
    let t = &mut w.threads;
    t.held = vec![vec![]; nthreads];
    t.waiting_for = vec![None; nthreads];
    t.active = vec![false; nthreads];
    t.pending = (0..nthreads).map(|_| VecDeque::new()).collect();
    t.lockset_check = true;
  });
  verif_sync::set_lock_hook(Some(lock_hook));
}

pub fn set_current_thread(t: usize) {
  w(|w| w.threads.current = t);
}

pub fn lockset_check(on: bool) {
  w(|w| w.threads.lockset_check = on);
}

/// yield points only (no logical threads)
pub fn yield_enable() {
  verif_sync::set_yield_hook(Some(yield_hook));
}

pub fn hooks_disable() {
  verif_sync::set_lock_hook(None);
  verif_sync::set_yield_hook(None);
}

pub fn thread_push(t: usize, op: Op) {
  w(|w| w.threads.pending[t].push_back(op));
}

fn norm_lock(w: &mut World, id: usize) -> usize {
  if let Some(p) = w.threads.lock_names.iter().position(|x| *x == id) {
    p
  } else {
    w.threads.lock_names.push(id);
    w.threads.lock_names.len() - 1
  }
}

/// Pre-emption point: maybe run one whole operation of another logical thread here.
pub fn maybe_preempt() {
  if std::thread::panicking() {
    return;
  }
  let cands: Vec<usize> = w(|w| {
    let t = &w.threads;
    if !t.enabled || t.depth >= t.max_depth || t.preemptions >= t.max_preemptions {
      return vec![];
    }
    (0..t.pending.len()).filter(|&i| i != t.current && !t.active[i] && !t.pending[i].is_empty()).collect()
  });
  if cands.is_empty() {
    return;
  }
  let k = e::choose(cands.len() as u32 + 1) as usize;
  if k == 0 {
    return;
  }
  let other = cands[k - 1];
  run_thread_op(other, true);
}

fn run_thread_op(t: usize, nested: bool) {
  let (op, prev) = w(|w| {
    let th = &mut w.threads;
    let op = th.pending[t].pop_front();
    let prev = th.current;
    if op.is_some() {
      th.current = t;
      th.active[t] = true;
      th.depth += 1;
      if nested {
        th.preemptions += 1;
      }
    }
    (op, prev)
  });
  if let Some(op) = op {
    e::note(format!("T{}{}:", t, if nested { "(preempting)" } else { "" }));
    op();
    w(|w| {
      let th = &mut w.threads;
      th.active[t] = false;
      th.depth -= 1;
      th.current = prev;
    });
  }
}

/// Top-level scheduler of logical threads: runs every pending operation, the
/// order of threads chosen at each step; nested pre-emption happens inside.
pub fn run_threads() {
  loop {
    let cands: Vec<usize> = w(|w| (0..w.threads.pending.len()).filter(|&i| !w.threads.pending[i].is_empty()).collect());
    if cands.is_empty() {
      return;
    }
    let k = e::choose(cands.len() as u32) as usize;
    run_thread_op(cands[k], false);
  }
}

fn lock_hook(ev: LockEvent, raw: usize) {
  if std::thread::panicking() {
    // keep the books straight while unwinding, never panic here
    if ev == LockEvent::Released {
      W.with(|x| {
        if let Ok(mut w) = x.try_borrow_mut() {
          let id = norm_lock(&mut w, raw);
          let cur = w.threads.current;
          if let Some(h) = w.threads.held.get_mut(cur) {
            if let Some(p) = h.iter().rposition(|l| *l == id) {
              h.remove(p);
            }
          }
          w.threads.owner.retain(|(l, _)| *l != id);
        }
      });
    }
    return;
  }
  if std::env::var("SX_TRACE").is_ok() {
    let (id, cur) = w(|w| (norm_lock(w, raw), w.threads.current));
    e::note(format!("    [T{} {:?} lock#{}]", cur, ev, id));
  }
  match ev {
    LockEvent::Before => {
      let id = w(|w| {
        let id = norm_lock(w, raw);
        let cur = w.threads.current;
        if let Some(x) = w.threads.waiting_for.get_mut(cur) {
          *x = Some(id);
        }
        id
      });
      let _ = id;
      maybe_preempt();
      w(|w| {
        let cur = w.threads.current;
        if let Some(x) = w.threads.waiting_for.get_mut(cur) {
          *x = None;
        }
      });
    }
    LockEvent::Acquired => w(|w| {
      let id = norm_lock(w, raw);
      let cur = w.threads.current;
      let held: Vec<usize> = w.threads.held.get(cur).cloned().unwrap_or_default();
      for h in held {
        w.threads.edges.insert((h, id, cur));
      }
      if let Some(h) = w.threads.held.get_mut(cur) {
        h.push(id);
      }
      w.threads.owner.push((id, cur));
    }),
    LockEvent::Released => w(|w| {
      let id = norm_lock(w, raw);
      let cur = w.threads.current;
      // the releasing thread is the owner
      let owner = w.threads.owner.iter().find(|(l, _)| *l == id).map(|(_, t)| *t).unwrap_or(cur);
      if let Some(h) = w.threads.held.get_mut(owner) {
        if let Some(p) = h.iter().rposition(|l| *l == id) {
          h.remove(p);
        }
      }
      w.threads.owner.retain(|(l, _)| *l != id);
    }),
    LockEvent::Relock => {
      enum R {
        SelfDeadlock(usize),
        Deadlock(usize, usize),
        Blocked(usize),
      }
      let r = w(|w| {
        let id = norm_lock(w, raw);
        let cur = w.threads.current;
        let owner = w.threads.owner.iter().find(|(l, _)| *l == id).map(|(_, t)| *t);
        match owner {
          Some(o) if o == cur => R::SelfDeadlock(id),
          Some(o) => {
            // `o` is suspended (we pre-empted it). If it waits for a lock we hold: cycle.
            let wants = w.threads.waiting_for.get(o).copied().flatten();
            match wants {
              Some(l2) if w.threads.held.get(cur).map_or(false, |h| h.contains(&l2)) => R::Deadlock(id, l2),
              _ => {
                w.threads.blocked_pruned += 1;
                R::Blocked(o)
              }
            }
          }
          None => R::SelfDeadlock(id),
        }
      });
      match r {
        R::SelfDeadlock(id) => e::fail("would-block/lock-reacquired", || format!("lock #{} acquired again by the logical thread that holds it (std::sync::Mutex would block forever)", id)),
        R::Deadlock(a, b) => e::fail(&format!("deadlock/lock-cycle{}", DEADLOCK_CTX.with(|c| c.borrow().clone())), || format!("thread waits for lock #{} held by a thread that waits for lock #{} held by the first", a, b)),
        R::Blocked(owner) => {
          // a producer's next() blocked by a lock that the pool's worker holds across the subscriber's callback:
          // with a hand-off between that callback and the producer neither would ever return. Judged only where
          // the harness says the pipeline decouples the two (observe_on / delay), the blocked operation is a
          // next() and the lock's owner is the worker polling a task.
          let cur = w(|w| w.threads.current);
          let kinds = OP_KIND.with(|k| k.get());
          let judged = DECOUPLED.with(|d| d.get()) && kinds.get(cur).copied() == Some(1) && kinds.get(owner).copied() == Some(2) && w(|w| w.probes.iter().any(|p| p.in_callback));
          if judged {
            e::fail(&format!("emitter-blocked-by-the-consumer-callback{}", DEADLOCK_CTX.with(|c| c.borrow().clone())), || "the producing thread's next() blocks on a lock that the worker thread holds for the whole subscriber callback: a callback that waits for the producer's next step (a plain hand-off, no re-entry) deadlocks".to_string());
          }
          e::cover("thread-blocked-path-pruned");
          e::prune()
        }
      }
    }
  }
}

fn yield_hook(id: usize) {
  if std::thread::panicking() {
    return;
  }
  let h = w(|w| {
    w.yield_hits.push(id);
    if w.in_yield {
      None
    } else {
      w.yield_handler.take()
    }
  });
  if let Some(mut h) = h {
    w(|w| w.in_yield = true);
    h(id);
    w(|w| {
      w.in_yield = false;
      w.yield_handler = Some(h)
    });
  } else {
    maybe_preempt();
  }
}

/// Are the recorded lock-order edges free of cycles between different threads?
pub fn lock_order_cycle() -> Option<(usize, usize)> {
  w(|w| {
    let e = &w.threads.edges;
    for &(a, b, t1) in e.iter() {
      for &(c, d, t2) in e.iter() {
        if a == d && b == c && t1 != t2 && a != b {
          return Some((a, b));
        }
      }
    }
    None
  })
}

pub fn lock_edges_any_thread() -> Vec<(usize, usize)> {
  w(|w| w.threads.edges.iter().map(|&(a, b, _)| (a, b)).collect())
}
