//! sx engine: forking symbolic execution by re-execution.
//!
//! The harness (and, through generic instantiation, the real rxRust code) runs
//! natively. Values of type `Sym` are SMT integer terms; every comparison on
//! them calls `branch`, which asks z3 which sides are feasible under the path
//! condition and forks. Harness nondeterminism goes through `choose`.
//! At property points `check` asks z3 for `pc && !cond`.
use std::cell::RefCell;
use std::collections::BTreeMap;
use std::io::{BufRead, BufReader, Write};
use std::process::{Child, ChildStdin, ChildStdout, Command, Stdio};
use std::time::{Duration, Instant};

// ---------------------------------------------------------------- terms

#[derive(Clone, Debug, PartialEq)]
pub enum Term {
  Var(u32),
  Const(i64),
  Add(u32, u32),
  Sub(u32, u32),
  MulC(i64, u32),
  DivC(u32, i64),
  ModC(u32, i64),
  Ite(u32, u32, u32),
  // booleans
  True,
  False,
  Eq(u32, u32),
  Lt(u32, u32),
  Le(u32, u32),
  Not(u32),
  And(u32, u32),
  Or(u32, u32),
}

#[derive(Clone, Debug, PartialEq, Eq)]
pub enum Decision {
  Branch(bool),
  Choice(u32, u32), // value, arity
}

#[derive(Clone, Debug)]
pub struct Violation {
  pub key: String,
  pub detail: String,
  pub trail: Vec<Decision>,
  pub model: Vec<i64>,
  pub notes: Vec<String>,
}

/// Payload used to unwind out of a path.
pub enum Abort {
  Violation,
  Pruned,
  Inconclusive(String),
}

#[derive(Default, Clone, Debug)]
pub struct Stats {
  pub paths: u64,
  pub pruned: u64,
  pub branch_queries: u64,
  pub check_queries: u64,
  pub sat: u64,
  pub unsat: u64,
  pub solver_s: f64,
  pub forks_sym: u64,
  pub forks_choice: u64,
  pub max_depth: usize,
  pub checks_discharged: u64,
  pub symbolic_paths: u64, // paths on which at least one solver-decided branch/check occurred
  pub nontrivial_paths: u64, // completed paths that delivered a notification to a subscriber or had a solver-decided branch/query
  pub inconclusive: Vec<String>,
  pub covers: BTreeMap<String, u64>,
  pub samples: Vec<String>,
  pub budget_hit: bool,
}

impl Stats {
  pub fn merge(&mut self, o: &Stats) {
    self.paths += o.paths;
    self.pruned += o.pruned;
    self.branch_queries += o.branch_queries;
    self.check_queries += o.check_queries;
    self.sat += o.sat;
    self.unsat += o.unsat;
    self.solver_s += o.solver_s;
    self.forks_sym += o.forks_sym;
    self.forks_choice += o.forks_choice;
    self.max_depth = self.max_depth.max(o.max_depth);
    self.checks_discharged += o.checks_discharged;
    self.symbolic_paths += o.symbolic_paths;
    self.nontrivial_paths += o.nontrivial_paths;
    for i in &o.inconclusive {
      if self.inconclusive.len() < 20 {
        self.inconclusive.push(i.clone());
      }
    }
    for (k, v) in &o.covers {
      *self.covers.entry(k.clone()).or_insert(0) += v;
    }
    for s in &o.samples {
      if self.samples.len() < 6 {
        self.samples.push(s.clone());
      }
    }
    self.budget_hit |= o.budget_hit;
  }
}

// ---------------------------------------------------------------- solver

pub struct Solver {
  child: Child,
  stdin: ChildStdin,
  stdout: BufReader<ChildStdout>,
  pub log: Vec<String>, // current run's declarations+assertions (for cross-checking)
}

#[derive(PartialEq, Debug, Clone, Copy)]
pub enum SatRes {
  Sat,
  Unsat,
  Unknown,
}

impl Solver {
  pub fn new() -> Solver {
    let z3 = std::env::var("SX_Z3").unwrap_or_else(|_| "z3".to_string());
    let mut child = Command::new(z3)
      .arg("-in")
      .stdin(Stdio::piped())
      .stdout(Stdio::piped())
      .stderr(Stdio::null())
      .spawn()
      .expect("cannot start z3");
    let stdin = child.stdin.take().unwrap();
    let stdout = BufReader::new(child.stdout.take().unwrap());
    let mut s = Solver { child, stdin, stdout, log: vec![] };
    s.send("(set-option :produce-models true)\n(set-option :timeout 20000)\n(set-logic ALL)\n");
    s
  }
  fn send(&mut self, t: &str) {
    self.stdin.write_all(t.as_bytes()).expect("z3 pipe");
  }
  fn read_line(&mut self) -> String {
    let mut l = String::new();
    self.stdin.flush().ok();
    self.stdout.read_line(&mut l).expect("z3 read");
    l.trim().to_string()
  }
  pub fn push(&mut self) {
    self.send("(push)\n");
  }
  pub fn pop(&mut self) {
    self.send("(pop)\n");
  }
  pub fn declare(&mut self, name: &str) {
    let d = format!("(declare-const {} Int)\n", name);
    self.send(&d);
    self.log.push(d);
  }
  pub fn assert(&mut self, t: &str) {
    let d = format!("(assert {})\n", t);
    self.send(&d);
    self.log.push(d);
  }
  /// check pc && extra
  pub fn check_with(&mut self, extra: &str) -> Result<SatRes, String> {
    self.send(&format!("(push)\n(assert {})\n(check-sat)\n", extra));
    let l = self.read_line();
    let r = match l.as_str() {
      "sat" => Ok(SatRes::Sat),
      "unsat" => Ok(SatRes::Unsat),
      "unknown" => Ok(SatRes::Unknown),
      other => Err(format!("solver said: {}", other)),
    };
    r
  }
  /// after a `check_with` that returned Sat, before `end_check`
  pub fn values(&mut self, names: &[String]) -> Result<Vec<i64>, String> {
    if names.is_empty() {
      return Ok(vec![]);
    }
    self.send(&format!("(get-value ({}))\n", names.join(" ")));
    // response may span several lines; read until parens balance
    let mut txt = String::new();
    let mut depth = 0i32;
    let mut started = false;
    loop {
      let l = self.read_line();
      if l.contains("(error") {
        return Err(l);
      }
      for ch in l.chars() {
        if ch == '(' {
          depth += 1;
          started = true;
        } else if ch == ')' {
          depth -= 1;
        }
      }
      txt.push_str(&l);
      txt.push(' ');
      if started && depth == 0 {
        break;
      }
    }
    // parse "((v0 3) (v1 (- 2)))"
    let mut out = vec![];
    for n in names {
      let pat = format!("({} ", n);
      let i = txt.find(&pat).ok_or_else(|| format!("no value for {} in {}", n, txt))?;
      let rest = &txt[i + pat.len()..];
      let rest = rest.trim_start();
      let v = if rest.starts_with("(-") {
        let r2 = rest[2..].trim_start();
        let num: String = r2.chars().take_while(|c| c.is_ascii_digit()).collect();
        -num.parse::<i64>().map_err(|e| format!("{e}: {txt}"))?
      } else {
        let num: String = rest.chars().take_while(|c| c.is_ascii_digit()).collect();
        num.parse::<i64>().map_err(|e| format!("{e}: {txt}"))?
      };
      out.push(v);
    }
    Ok(out)
  }
  pub fn end_check(&mut self) {
    self.send("(pop)\n");
  }
}

impl Drop for Solver {
  fn drop(&mut self) {
    let _ = self.stdin.write_all(b"(exit)\n");
    let _ = self.child.kill();
    let _ = self.child.wait();
  }
}

// ---------------------------------------------------------------- context

pub enum Mode {
  Symbolic,
  /// concrete replay: variables take the model's values
  Concrete(Vec<i64>),
}

pub struct Ctx {
  pub terms: Vec<Term>,
  pub nvars: u32,
  pub nchoice: u32,
  pub trail: Vec<Decision>,
  pub prefix: Vec<Decision>,
  pub alternatives: Vec<Vec<Decision>>, // discovered on this run
  pub solver: Option<Solver>,
  pub mode: Mode,
  pub stats: Stats,
  pub violation: Option<Violation>,
  pub notes: Vec<String>,
  pub path_symbolic: bool,
  pub xcheck: Vec<String>, // sampled full queries for the second solver
  pub xcheck_expect: Vec<SatRes>,
  pub rng: u64,
  pub pc_dirty_terms: Vec<u32>, // path condition (term ids)
  pub rec: Option<Vec<RecItem>>,
  pub rep: Option<(Vec<RecItem>, usize)>,
  pub quiet: bool,
  pub diverged: bool,
  /// set when a path is being abandoned: rxRust's scheduler catches panics inside tasks,
  /// so the abort is re-raised at the next engine/world entry point
  pub aborting: Option<u8>,
}

#[derive(Clone, Debug, PartialEq)]
pub enum RecItem {
  Choice(u32, u32),
  Var(u32),
}

thread_local! {
  pub static CTX: RefCell<Option<Ctx>> = RefCell::new(None);
}

fn with<R>(f: impl FnOnce(&mut Ctx) -> R) -> R {
  CTX.with(|c| f(c.borrow_mut().as_mut().expect("sx: no context")))
}

impl Ctx {
  pub fn new(mode: Mode, seed: u64) -> Ctx {
    let solver = match mode {
      Mode::Symbolic => Some(Solver::new()),
      Mode::Concrete(_) => None,
    };
    Ctx {
      terms: vec![],
      nvars: 0,
      nchoice: 0,
      trail: vec![],
      prefix: vec![],
      alternatives: vec![],
      solver,
      mode,
      stats: Stats::default(),
      violation: None,
      notes: vec![],
      path_symbolic: false,
      xcheck: vec![],
      xcheck_expect: vec![],
      rng: seed.wrapping_mul(0x9E3779B97F4A7C15) | 1,
      pc_dirty_terms: vec![],
      rec: None,
      rep: None,
      quiet: false,
      diverged: false,
      aborting: None,
    }
  }
  fn begin_run(&mut self, prefix: Vec<Decision>) {
    self.terms.clear();
    self.nvars = 0;
    self.nchoice = 0;
    self.trail.clear();
    // a concrete replay decides every branch by evaluation and records choices only: the trail it follows is the
    // symbolic run's with the branch decisions taken out (they may sit between choices)
    self.prefix = if matches!(self.mode, Mode::Concrete(_)) { prefix.into_iter().filter(|d| matches!(d, Decision::Choice(..))).collect() } else { prefix };
    self.alternatives.clear();
    self.violation = None;
    self.notes.clear();
    self.path_symbolic = false;
    self.pc_dirty_terms.clear();
    self.rec = None;
    self.rep = None;
    self.quiet = false;
    self.diverged = false;
    self.aborting = None;
    if let Some(s) = self.solver.as_mut() {
      s.log.clear();
      s.push();
    }
  }
  fn end_run(&mut self) {
    if let Some(s) = self.solver.as_mut() {
      s.pop();
    }
  }
  pub fn mk(&mut self, t: Term) -> u32 {
    // light-weight structural sharing for the most recent terms
    let n = self.terms.len();
    let lo = n.saturating_sub(8);
    for i in (lo..n).rev() {
      if self.terms[i] == t {
        return i as u32;
      }
    }
    self.terms.push(t);
    n as u32
  }
  pub fn konst(&self, t: u32) -> Option<i64> {
    match self.terms[t as usize] {
      Term::Const(c) => Some(c),
      _ => None,
    }
  }
  pub fn kbool(&self, t: u32) -> Option<bool> {
    match self.terms[t as usize] {
      Term::True => Some(true),
      Term::False => Some(false),
      _ => None,
    }
  }
  pub fn smt(&self, t: u32) -> String {
    let mut s = String::new();
    self.smt_into(t, &mut s);
    s
  }
  fn smt_into(&self, t: u32, s: &mut String) {
    use std::fmt::Write as _;
    match &self.terms[t as usize] {
      Term::Var(i) => {
        let _ = write!(s, "v{}", i);
      }
      Term::Const(c) => {
        if *c < 0 {
          let _ = write!(s, "(- {})", (*c as i128).abs());
        } else {
          let _ = write!(s, "{}", c);
        }
      }
      Term::Add(a, b) => self.bin("+", *a, *b, s),
      Term::Sub(a, b) => self.bin("-", *a, *b, s),
      Term::MulC(c, a) => {
        s.push_str("(* ");
        if *c < 0 {
          let _ = write!(s, "(- {})", (*c as i128).abs());
        } else {
          let _ = write!(s, "{}", c);
        }
        s.push(' ');
        self.smt_into(*a, s);
        s.push(')');
      }
      Term::DivC(a, c) => {
        s.push_str("(div ");
        self.smt_into(*a, s);
        let _ = write!(s, " {})", c);
      }
      Term::ModC(a, c) => {
        s.push_str("(mod ");
        self.smt_into(*a, s);
        let _ = write!(s, " {})", c);
      }
      Term::Ite(c, a, b) => {
        s.push_str("(ite ");
        self.smt_into(*c, s);
        s.push(' ');
        self.smt_into(*a, s);
        s.push(' ');
        self.smt_into(*b, s);
        s.push(')');
      }
      Term::True => s.push_str("true"),
      Term::False => s.push_str("false"),
      Term::Eq(a, b) => self.bin("=", *a, *b, s),
      Term::Lt(a, b) => self.bin("<", *a, *b, s),
      Term::Le(a, b) => self.bin("<=", *a, *b, s),
      Term::Not(a) => {
        s.push_str("(not ");
        self.smt_into(*a, s);
        s.push(')');
      }
      Term::And(a, b) => self.bin("and", *a, *b, s),
      Term::Or(a, b) => self.bin("or", *a, *b, s),
    }
  }
  fn bin(&self, op: &str, a: u32, b: u32, s: &mut String) {
    s.push('(');
    s.push_str(op);
    s.push(' ');
    self.smt_into(a, s);
    s.push(' ');
    self.smt_into(b, s);
    s.push(')');
  }
  fn next_rand(&mut self) -> u64 {
    let mut x = self.rng;
    x ^= x << 13;
    x ^= x >> 7;
    x ^= x << 17;
    self.rng = x;
    x
  }
  fn sample_query(&mut self, extra: &str, expect: SatRes) {
    // reservoir of up to 12 full queries per worker, re-asked to cvc5 at the end
    if expect == SatRes::Unknown {
      return;
    }
    let total = self.stats.branch_queries + self.stats.check_queries;
    let cap = 12usize;
    let r = (self.next_rand() % (total.max(1))) as usize;
    if self.xcheck.len() >= cap && r >= cap {
      return;
    }
    let mut q = String::from("(set-logic ALL)\n");
    if let Some(s) = self.solver.as_ref() {
      for l in &s.log {
        q.push_str(l);
      }
    }
    q.push_str(&format!("(assert {})\n(check-sat)\n", extra));
    if self.xcheck.len() < cap {
      self.xcheck.push(q);
      self.xcheck_expect.push(expect);
    } else {
      self.xcheck[r] = q;
      self.xcheck_expect[r] = expect;
    }
  }
  fn ask(&mut self, extra: String, is_check: bool) -> SatRes {
    let t0 = Instant::now();
    let r = {
      let s = self.solver.as_mut().expect("solver");
      s.check_with(&extra)
    };
    let dt = t0.elapsed().as_secs_f64();
    self.stats.solver_s += dt;
    if is_check {
      self.stats.check_queries += 1;
    } else {
      self.stats.branch_queries += 1;
    }
    match r {
      Ok(SatRes::Sat) => {
        self.stats.sat += 1;
        self.sample_query(&extra, SatRes::Sat);
        SatRes::Sat
      }
      Ok(SatRes::Unsat) => {
        self.stats.unsat += 1;
        self.solver.as_mut().unwrap().end_check();
        self.sample_query(&extra, SatRes::Unsat);
        SatRes::Unsat
      }
      Ok(SatRes::Unknown) => {
        self.solver.as_mut().unwrap().end_check();
        SatRes::Unknown
      }
      Err(e) => {
        // solver protocol problem: restart solver is not possible mid-run; mark inconclusive
        self.stats.inconclusive.push(e.clone());
        std::panic::panic_any(Abort::Inconclusive(e));
      }
    }
  }
}

// ---------------------------------------------------------------- public API used by harnesses and Sym

pub fn mk(t: Term) -> u32 {
  with(|c| c.mk(t))
}
pub fn konst(t: u32) -> Option<i64> {
  with(|c| c.konst(t))
}
pub fn term(t: u32) -> Term {
  with(|c| c.terms[t as usize].clone())
}
pub fn smt(t: u32) -> String {
  with(|c| c.smt(t))
}

/// A fresh symbolic integer.
pub fn fresh_var() -> u32 {
  with(|c| {
    if let Some((items, pos)) = c.rep.as_mut() {
      if let Some(RecItem::Var(id)) = items.get(*pos) {
        *pos += 1;
        return *id;
      }
      c.diverged = true;
    }
    let id = fresh_var_inner(c);
    if let Some(r) = c.rec.as_mut() {
      r.push(RecItem::Var(id));
    }
    id
  })
}

fn fresh_var_inner(c: &mut Ctx) -> u32 {
  {
    let i = c.nvars;
    c.nvars += 1;
    match &c.mode {
      Mode::Concrete(m) => {
        let v = m.get(i as usize).copied().unwrap_or(0);
        c.mk(Term::Const(v))
      }
      Mode::Symbolic => {
        c.solver.as_mut().unwrap().declare(&format!("v{}", i));
        c.mk(Term::Var(i))
      }
    }
  }
}

fn abort(a: Abort) -> ! {
  let code = match &a {
    Abort::Violation => 1,
    Abort::Pruned => 2,
    Abort::Inconclusive(_) => 3,
  };
  with(|c| {
    if c.aborting.is_none() {
      c.aborting = Some(code)
    }
  });
  std::panic::resume_unwind(Box::new(a))
}

/// If the current path has been abandoned but the unwinding was swallowed by a
/// `catch_unwind` inside the code under test, continue unwinding.
pub fn reraise_if_aborting() {
  if std::thread::panicking() {
    return;
  }
  let code = CTX.with(|c| c.try_borrow().ok().and_then(|b| b.as_ref().and_then(|x| x.aborting)));
  match code {
    Some(1) => std::panic::resume_unwind(Box::new(Abort::Violation)),
    Some(2) => std::panic::resume_unwind(Box::new(Abort::Pruned)),
    Some(_) => std::panic::resume_unwind(Box::new(Abort::Inconclusive("re-raised".to_string()))),
    None => {}
  }
}

/// Fork on a boolean term. Returns the side taken on this run.
pub fn branch(cond: u32) -> bool {
  if std::thread::panicking() {
    return false;
  }
  reraise_if_aborting();
  enum Act {
    Ret(bool),
    Prune,
  }
  let act = with(|c| {
    if let Some(b) = c.kbool(cond) {
      return Act::Ret(b);
    }
    if let Mode::Concrete(_) = c.mode {
      panic!("sx: non-constant condition in concrete mode: {}", c.smt(cond));
    }
    c.path_symbolic = true;
    let depth = c.trail.len();
    let cs = c.smt(cond);
    let ncs = format!("(not {})", cs);
    if depth < c.prefix.len() {
      let d = c.prefix[depth].clone();
      match d {
        Decision::Branch(b) => {
          c.trail.push(Decision::Branch(b));
          c.solver.as_mut().unwrap().assert(if b { &cs } else { &ncs });
          return Act::Ret(b);
        }
        _ => panic!("sx: trail mismatch (expected branch) at depth {}", depth),
      }
    }
    let t = c.ask(cs.clone(), false);
    if t == SatRes::Sat {
      c.solver.as_mut().unwrap().end_check();
    }
    let f = c.ask(ncs.clone(), false);
    if f == SatRes::Sat {
      c.solver.as_mut().unwrap().end_check();
    }
    if t == SatRes::Unknown || f == SatRes::Unknown {
      c.stats.inconclusive.push(format!("unknown on branch {}", cs));
    }
    let tf = t != SatRes::Unsat;
    let ff = f != SatRes::Unsat;
    match (tf, ff) {
      (true, true) => {
        c.stats.forks_sym += 1;
        let mut alt = c.trail.clone();
        alt.push(Decision::Branch(false));
        c.alternatives.push(alt);
        c.trail.push(Decision::Branch(true));
        c.solver.as_mut().unwrap().assert(&cs);
        Act::Ret(true)
      }
      (true, false) => {
        c.trail.push(Decision::Branch(true));
        Act::Ret(true)
      }
      (false, true) => {
        c.trail.push(Decision::Branch(false));
        Act::Ret(false)
      }
      (false, false) => Act::Prune,
    }
  });
  match act {
    Act::Ret(b) => b,
    Act::Prune => abort(Abort::Pruned),
  }
}

/// Harness nondeterminism: a solver variable `c_k` in `0..n`, forked n ways.
pub fn choose(n: u32) -> u32 {
  assert!(n >= 1);
  if n == 1 || std::thread::panicking() {
    return 0;
  }
  reraise_if_aborting();
  with(|c| {
    if let Some((items, pos)) = c.rep.as_mut() {
      if let Some(RecItem::Choice(v, m)) = items.get(*pos) {
        if *m == n {
          *pos += 1;
          return *v;
        }
      }
      // the second form asked for something else: control flow diverged
      c.diverged = true;
      return 0;
    }
    let v = choose_inner(c, n);
    if let Some(r) = c.rec.as_mut() {
      r.push(RecItem::Choice(v, n));
    }
    v
  })
}

fn choose_inner(c: &mut Ctx, n: u32) -> u32 {
  {
    let depth = c.trail.len();
    let k = c.nchoice;
    c.nchoice += 1;
    let v = if depth < c.prefix.len() {
      match c.prefix[depth] {
        Decision::Choice(v, m) => {
          assert!(m == n, "sx: trail mismatch (choice arity {} vs {}) at depth {}", m, n, depth);
          v
        }
        _ => panic!("sx: trail mismatch (expected choice) at depth {}", depth),
      }
    } else {
      c.stats.forks_choice += 1;
      for alt_v in (1..n).rev() {
        let mut alt = c.trail.clone();
        alt.push(Decision::Choice(alt_v, n));
        c.alternatives.push(alt);
      }
      0
    };
    c.trail.push(Decision::Choice(v, n));
    if let Some(s) = c.solver.as_mut() {
      // the choice is a solver variable; this run explores the slice c_k = v
      s.declare(&format!("c{}", k));
      s.assert(&format!("(= c{} {})", k, v));
    }
    v
  }
}

pub fn choose_bool() -> bool {
  choose(2) == 1
}

/// Constrain the path; prunes it if infeasible.
pub fn assume(cond: u32) {
  if !branch(cond) {
    abort(Abort::Pruned)
  }
}

pub fn prune() -> ! {
  abort(Abort::Pruned)
}

pub fn note(s: String) {
  if std::thread::panicking() {
    return;
  }
  reraise_if_aborting();
  with(|c| {
    if c.notes.len() < 400 {
      c.notes.push(s)
    }
  });
}

pub fn cover(label: &str) {
  with(|c| *c.stats.covers.entry(label.to_string()).or_insert(0) += 1);
}

/// Vacuity guard per configuration: `cfg_begin` when a path has drawn its configuration,
/// `cfg_end` when it ran to its end. A configuration that begins but never ends on any path
/// was never judged (every such path was pruned or aborted): the driver reports that.
pub fn cfg_begin(label: &str) {
  if std::thread::panicking() {
    return;
  }
  with(|c| {
    if !c.quiet {
      *c.stats.covers.entry(format!("cfg-begin/{}", label)).or_insert(0) += 1
    }
  });
}
pub fn cfg_end(label: &str) {
  if std::thread::panicking() {
    return;
  }
  with(|c| {
    if !c.quiet {
      *c.stats.covers.entry(format!("cfg-end/{}", label)).or_insert(0) += 1
    }
  });
}

/// The property: z3 decides `pc && !cond`. `key` names the *shape* of the failure.
pub fn check(cond: u32, key: &str, detail: impl FnOnce() -> String) {
  if std::thread::panicking() {
    return;
  }
  reraise_if_aborting();
  if with(|c| c.quiet) {
    return;
  }
  let viol = with(|c| {
    if let Some(b) = c.kbool(cond) {
      if b {
        c.stats.checks_discharged += 1;
        return false;
      }
      let model = match &c.mode {
        Mode::Concrete(m) => m.clone(),
        Mode::Symbolic => {
          // any model of the path condition
          let names: Vec<String> = (0..c.nvars).map(|i| format!("v{}", i)).collect();
          let r = c.ask("true".to_string(), true);
          let m = if r == SatRes::Sat {
            let m = c.solver.as_mut().unwrap().values(&names).unwrap_or_default();
            c.solver.as_mut().unwrap().end_check();
            m
          } else {
            vec![0; names.len()]
          };
          m
        }
      };
      c.violation = Some(Violation {
        key: key.to_string(),
        detail: String::new(),
        trail: c.trail.clone(),
        model,
        notes: c.notes.clone(),
      });
      return true;
    }
    c.path_symbolic = true;
    let ncs = format!("(not {})", c.smt(cond));
    let r = c.ask(ncs, true);
    match r {
      SatRes::Unsat => {
        c.stats.checks_discharged += 1;
        false
      }
      SatRes::Unknown => {
        c.stats.inconclusive.push(format!("unknown on check {}", key));
        false
      }
      SatRes::Sat => {
        let names: Vec<String> = (0..c.nvars).map(|i| format!("v{}", i)).collect();
        let m = c.solver.as_mut().unwrap().values(&names);
        c.solver.as_mut().unwrap().end_check();
        match m {
          Ok(model) => {
            c.violation = Some(Violation {
              key: key.to_string(),
              detail: String::new(),
              trail: c.trail.clone(),
              model,
              notes: c.notes.clone(),
            });
            true
          }
          Err(e) => {
            c.stats.inconclusive.push(format!("model read failed: {}", e));
            false
          }
        }
      }
    }
  });
  if viol {
    let d = detail();
    with(|c| {
      if let Some(v) = c.violation.as_mut() {
        v.detail = d;
      }
    });
    abort(Abort::Violation)
  }
}

/// Is `cond` valid under the path condition? (no fork, no abort)
pub fn valid(cond: u32) -> bool {
  if std::thread::panicking() {
    return true;
  }
  with(|c| {
    if let Some(b) = c.kbool(cond) {
      return b;
    }
    c.path_symbolic = true;
    let ncs = format!("(not {})", c.smt(cond));
    match c.ask(ncs, true) {
      SatRes::Unsat => true,
      SatRes::Sat => {
        c.solver.as_mut().unwrap().end_check();
        false
      }
      SatRes::Unknown => {
        c.stats.inconclusive.push("unknown on valid()".to_string());
        false
      }
    }
  })
}

/// Unconditional violation on this path.
pub fn fail(key: &str, detail: impl FnOnce() -> String) {
  if std::thread::panicking() {
    return;
  }
  if with(|c| c.quiet) {
    return;
  }
  let f = mk(Term::False);
  check(f, key, detail);
  unreachable!()
}

pub fn is_concrete() -> bool {
  with(|c| matches!(c.mode, Mode::Concrete(_)))
}

// ---------------------------------------------------------------- exploration

pub struct RunOutcome {
  pub violation: Option<Violation>,
  pub alternatives: Vec<Vec<Decision>>,
  pub pruned: bool,
  pub panic_msg: Option<String>,
}

/// Run the harness once along `prefix` (then first feasible alternatives).
pub fn run_once(prefix: Vec<Decision>, harness: &dyn Fn()) -> RunOutcome {
  with(|c| c.begin_run(prefix));
  crate::world::reset_world();
  let _ = crate::world::take_panics();
  let r = std::panic::catch_unwind(std::panic::AssertUnwindSafe(|| harness()));
  let delivered = crate::world::any_delivery();
  let panics = crate::world::take_panics();
  crate::world::reset_world();
  let _ = crate::world::take_panics();
  let mut out = RunOutcome { violation: None, alternatives: vec![], pruned: false, panic_msg: None };
  let swallowed = with(|c| c.aborting);
  match r {
    Ok(()) => {
      // the abort was swallowed somewhere and the harness ran to its end: honour the abort
      match swallowed {
        Some(2) | Some(3) => out.pruned = true,
        Some(_) => {}
        None => {
          // a panic of the code under test that something (the scheduler's catch_unwind) swallowed
          if let Some(m) = panics.first() {
            out.panic_msg = Some(format!("{} [swallowed by a catch_unwind, found in the panic hook]", m));
          }
        }
      }
    }
    Err(p) => {
      if let Some(a) = p.downcast_ref::<Abort>() {
        match a {
          Abort::Violation => {}
          Abort::Pruned => out.pruned = true,
          Abort::Inconclusive(_) => out.pruned = true,
        }
      } else {
        let msg = if let Some(s) = p.downcast_ref::<&str>() {
          s.to_string()
        } else if let Some(s) = p.downcast_ref::<String>() {
          s.clone()
        } else {
          "panic (non-string payload)".to_string()
        };
        if swallowed.is_some() {
          // a secondary panic while an abandoned path was still running: not a finding of its own
          if swallowed != Some(1) {
            out.pruned = true;
          }
        } else {
          out.panic_msg = Some(msg);
        }
      }
    }
  }
  with(|c| {
    if let Some(msg) = &out.panic_msg {
      // a panic inside the code under test: a violation of "never panics"
      let model = match &c.mode {
        Mode::Concrete(m) => m.clone(),
        Mode::Symbolic => {
          let names: Vec<String> = (0..c.nvars).map(|i| format!("v{}", i)).collect();
          let r = c.ask("true".to_string(), true);
          if r == SatRes::Sat {
            let m = c.solver.as_mut().unwrap().values(&names).unwrap_or_default();
            c.solver.as_mut().unwrap().end_check();
            m
          } else {
            vec![0; names.len()]
          }
        }
      };
      let key = crate::world::classify_panic(msg);
      c.violation = Some(Violation {
        key,
        detail: msg.clone(),
        trail: c.trail.clone(),
        model,
        notes: c.notes.clone(),
      });
    }
    out.violation = c.violation.take();
    // debugging aid: SX_FIND=<substring> prints the trail and notes of paths whose notes contain it
    if let Ok(pat) = std::env::var("SX_FIND") {
      if c.notes.iter().any(|n| n.contains(&pat)) {
        eprintln!("SX_FIND {} pruned={} violation={:?}\n   {}", fmt_trail(&c.trail), out.pruned, out.violation.as_ref().map(|v| v.key.clone()), c.notes.join("\n   "));
      }
    }
    out.alternatives = std::mem::take(&mut c.alternatives);
    c.stats.max_depth = c.stats.max_depth.max(c.trail.len());
    if out.pruned {
      c.stats.pruned += 1;
    } else {
      c.stats.paths += 1;
      if c.path_symbolic {
        c.stats.symbolic_paths += 1;
      }
      if c.path_symbolic || delivered {
        c.stats.nontrivial_paths += 1;
      }
      if c.stats.samples.len() < 3 && !c.notes.is_empty() {
        let s = c.notes.join(" ; ");
        c.stats.samples.push(s);
      }
    }
    c.end_run();
  });
  out
}

pub fn install(mode: Mode, seed: u64) {
  CTX.with(|c| *c.borrow_mut() = Some(Ctx::new(mode, seed)));
}

pub fn uninstall() -> Option<Ctx> {
  CTX.with(|c| c.borrow_mut().take())
}

pub fn fmt_trail(t: &[Decision]) -> String {
  let mut s = String::new();
  for d in t {
    match d {
      Decision::Branch(b) => s.push(if *b { 'T' } else { 'F' }),
      Decision::Choice(v, n) => s.push_str(&format!("[{}/{}]", v, n)),
    }
  }
  s
}

pub fn parse_trail(s: &str) -> Vec<Decision> {
  let mut out = vec![];
  let b: Vec<char> = s.chars().collect();
  let mut i = 0;
  while i < b.len() {
    match b[i] {
      'T' => {
        out.push(Decision::Branch(true));
        i += 1;
      }
      'F' => {
        out.push(Decision::Branch(false));
        i += 1;
      }
      '[' => {
        let j = (i..b.len()).find(|&j| b[j] == ']').unwrap();
        let inner: String = b[i + 1..j].iter().collect();
        let mut p = inner.split('/');
        let v: u32 = p.next().unwrap().parse().unwrap();
        let n: u32 = p.next().unwrap().parse().unwrap();
        out.push(Decision::Choice(v, n));
        i = j + 1;
      }
      _ => i += 1,
    }
  }
  out
}

pub fn cross_check_cvc5(queries: &[(String, SatRes)]) -> (usize, usize, Vec<String>) {
  // returns (asked, agreed, problems)
  let mut asked = 0;
  let mut agreed = 0;
  let mut problems = vec![];
  for (q, exp) in queries {
    let mut child = match Command::new("cvc5")
      .args(["--lang", "smt2", "--tlimit=20000"])
      .stdin(Stdio::piped())
      .stdout(Stdio::piped())
      .stderr(Stdio::null())
      .spawn()
    {
      Ok(c) => c,
      Err(e) => {
        problems.push(format!("cannot start cvc5: {}", e));
        break;
      }
    };
    child.stdin.take().unwrap().write_all(q.as_bytes()).ok();
    let out = child.wait_with_output().unwrap();
    let txt = String::from_utf8_lossy(&out.stdout).trim().to_string();
    asked += 1;
    let got = match txt.lines().next().unwrap_or("") {
      "sat" => SatRes::Sat,
      "unsat" => SatRes::Unsat,
      _ => SatRes::Unknown,
    };
    if got == *exp {
      agreed += 1;
    } else if got == SatRes::Unknown {
      // second solver gave up: not a disagreement, but not an agreement either
    } else {
      problems.push(format!("z3 said {:?}, cvc5 said {:?} on:\n{}", exp, got, q));
    }
  }
  (asked, agreed, problems)
}

pub fn _unused(_: Duration) {}

// ---------------------------------------------------------------- differential runs

/// Run `f(false)` recording every choice and fresh variable, then `f(true)` replaying
/// them, with the per-form oracles silenced; returns both results and whether the
/// second run asked for different choices (diverged).
pub fn twice<R>(f: impl Fn(bool) -> R, between: impl FnOnce()) -> (R, R, bool) {
  with(|c| {
    c.rec = Some(vec![]);
    c.quiet = true;
  });
  let a = f(false);
  let rec = with(|c| c.rec.take().unwrap_or_default());
  between();
  with(|c| c.rep = Some((rec, 0)));
  let b = f(true);
  let div = with(|c| {
    let d = c.diverged || c.rep.as_ref().map_or(false, |(items, pos)| *pos != items.len());
    c.rep = None;
    c.quiet = false;
    d
  });
  (a, b, div)
}
