//! Scheduler-using operators on the virtual clock: C07 (scheduler-moving
//! operators), C02 (unsubscribe vs. scheduled work), C08 (time/async sources),
//! C09 (rate limiting), C19 (scheduled tasks), C16 (producers retire).
use crate::cat::{self, Obs, ObsT};
use crate::engine as e;
use crate::harness::*;
use crate::model::{self, Script, Tm};
use crate::val::Val;
use crate::world::{self, Ev, Probe};
use futures::executor::LocalPool;
use rxrust::ops::throttle::ThrottleEdge;
use rxrust::prelude::*;
use std::time::Duration;

/// Executor under test.
pub enum Exec {
  /// the library's real FuturesLocalScheduler (LocalPool, FIFO)
  Pool(LocalPool),
  /// hook scheduler: any ready task may run next (model of a k-worker pool)
  Any,
  /// hook scheduler polled in spawn order
  AnyFifo,
}

impl Exec {
  pub fn run(&mut self) {
    match self {
      Exec::Pool(p) => {
        p.run_until_stalled();
        e::reraise_if_aborting();
      }
      Exec::Any => world::run_any_until_stalled(48),
      Exec::AnyFifo => world::run_fifo_until_stalled(48),
    }
  }
  /// executor activity at an optional run point: nothing, everything that is ready, or (ANY
  /// executor only) a single chosen ready task - a pool whose other workers are running late
  pub fn run_optional(&mut self) -> bool {
    let partial = matches!(self, Exec::Any) && !world::ready_tasks().is_empty();
    match e::choose(if partial { 3 } else { 2 }) {
      0 => false,
      1 => {
        self.run();
        true
      }
      _ => {
        let r = world::ready_tasks();
        let k = e::choose(r.len() as u32) as usize;
        world::poll_task(r[k]);
        true
      }
    }
  }
  pub fn name(&self) -> &'static str {
    match self {
      Exec::Pool(_) => "LocalPool(FIFO)",
      Exec::Any => "ANY-order",
      Exec::AnyFifo => "hook-FIFO",
    }
  }
  pub fn is_fifo(&self) -> bool {
    !matches!(self, Exec::Any)
  }
}

/// Run until nothing is ready and no timer is pending (bounded).
pub fn drain(exec: &mut Exec, max_rounds: usize, mut at_point: impl FnMut(&mut Exec)) {
  for _ in 0..max_rounds {
    world::step();
    exec.run();
    at_point(exec);
    match world::next_deadline() {
      Some(t) => {
        let now = world::now();
        world::step();
        world::advance(t - now);
        at_point(exec);
      }
      None => {
        world::step();
        exec.run();
        return;
      }
    }
  }
}

fn d(u: u64) -> Duration {
  world::units(u)
}

/// executors whose scheduler value is `Send` (needed by the _threads operators)
macro_rules! with_exec_send {
  ($kind:expr, |$sd:ident, $exec:ident| $body:block) => {
    match $kind {
      1 => {
        let $sd = world::any_sched();
        #[allow(unused_mut)]
        let mut $exec = Exec::Any;
        $body
      }
      _ => {
        let $sd = world::any_sched();
        #[allow(unused_mut)]
        let mut $exec = Exec::AnyFifo;
        $body
      }
    }
  };
}

/// expands `$body` once per executor kind with `$sd` bound to a scheduler value
macro_rules! with_exec {
  ($kind:expr, |$sd:ident, $exec:ident| $body:block) => {
    match $kind {
      0 => {
        let pool = LocalPool::new();
        let $sd = pool.spawner();
        #[allow(unused_mut)]
        let mut $exec = Exec::Pool(pool);
        $body
      }
      1 => {
        let $sd = world::any_sched();
        #[allow(unused_mut)]
        let mut $exec = Exec::Any;
        $body
      }
      _ => {
        let $sd = world::any_sched();
        #[allow(unused_mut)]
        let mut $exec = Exec::AnyFifo;
        $body
      }
    }
  };
}

// ------------------------------------------------------------------ C07 / C02: scheduler-moving operators

#[derive(Clone, Copy, PartialEq, Debug)]
enum MoveOp {
  ObserveOn,
  Delay(u64),
  DelaySubscription(u64),
  SubscribeOn,
}

struct Timed {
  ev: Ev,
  at: u64,
}

/// `cut`: Some(n) = inject unsubscribe at the n-th cut point (C02), None = C07 oracle.
pub(crate) fn c07_run(threads_form: bool, max_items: u32, do_cut: bool) {
  let op = match e::choose(4) {
    0 => MoveOp::ObserveOn,
    1 => MoveOp::Delay(1 + e::choose(2) as u64),
    2 => MoveOp::DelaySubscription(1 + e::choose(2) as u64),
    _ => MoveOp::SubscribeOn,
  };
  let script = draw_script(max_items, true);
  let cold = matches!(op, MoveOp::DelaySubscription(_) | MoveOp::SubscribeOn) && e::choose_bool();
  // hot input: a parked `create` subscriber handle or a Subject (which consults is_finished / is_closed of its subscribers)
  let hot_kind = if cold { 0 } else { e::choose(2) };
  // FIFO first, ANY second in both forms (the differential harness replays the same choices)
  let kind = if threads_form { 2 - e::choose(2) } else { e::choose(2) };
  let probe = fresh_probe();
  let cut_at: i64 = if do_cut { e::choose(10) as i64 } else { -1 };
  let by_guard = if do_cut { e::choose(3) } else { 0 };
  let mut unsub: Option<Box<dyn FnOnce()>> = None;
  let closed_cell: std::rc::Rc<std::cell::RefCell<Option<Box<dyn Fn() -> bool>>>> = Default::default();
  let mut exec_box: Exec;
  macro_rules! build {
    ($src:expr, $sd:ident, $delay:ident, $obs_on:ident, $boxsub:ident) => {{
      let src = $src;
      match op {
        MoveOp::ObserveOn => {
          let u = std::rc::Rc::new(std::cell::RefCell::new(Some(src.$obs_on($sd.clone()).actual_subscribe(probe))));
          let u2 = u.clone();
          *closed_cell.borrow_mut() = Some(Box::new(move || u2.borrow().as_ref().map_or(true, |x| x.is_closed())));
          unsub = Some(Box::new(move || {
            if let Some(u) = u.borrow_mut().take() {
              release(u, by_guard)
            }
          }));
        }
        MoveOp::Delay(k) => {
          let u = std::rc::Rc::new(std::cell::RefCell::new(Some(src.$delay(d(k), $sd.clone()).actual_subscribe(probe))));
          let u2 = u.clone();
          *closed_cell.borrow_mut() = Some(Box::new(move || u2.borrow().as_ref().map_or(true, |x| x.is_closed())));
          unsub = Some(Box::new(move || {
            if let Some(u) = u.borrow_mut().take() {
              release(u, by_guard)
            }
          }));
        }
        MoveOp::DelaySubscription(k) => {
          let u = std::rc::Rc::new(std::cell::RefCell::new(Some(src.delay_subscription(d(k), $sd.clone()).actual_subscribe(probe))));
          let u2 = u.clone();
          *closed_cell.borrow_mut() = Some(Box::new(move || u2.borrow().as_ref().map_or(true, |x| x.is_closed())));
          unsub = Some(Box::new(move || {
            if let Some(u) = u.borrow_mut().take() {
              release(u, by_guard)
            }
          }));
        }
        MoveOp::SubscribeOn => {
          let u = std::rc::Rc::new(std::cell::RefCell::new(Some(src.subscribe_on($sd.clone()).actual_subscribe(probe))));
          let u2 = u.clone();
          *closed_cell.borrow_mut() = Some(Box::new(move || u2.borrow().as_ref().map_or(true, |x| x.is_closed())));
          unsub = Some(Box::new(move || {
            if let Some(u) = u.borrow_mut().take() {
              release(u, by_guard)
            }
          }));
        }
      }
    }};
  }
  if threads_form {
    with_exec_send!(kind, |sd, exec| {
      let src: ObsT = if cold { cat::cold_t(script.items.clone(), script.term.clone(), 0) } else { cat::hot_kind_t(0, hot_kind) };
      build!(src, sd, delay_threads, observe_on_threads, BoxSubscriptionThreads);
      exec_box = exec;
    });
  } else {
    with_exec!(kind, |sd, exec| {
      let src: Obs = if cold { cat::cold(script.items.clone(), script.term.clone(), 0) } else { cat::hot_kind(0, hot_kind) };
      build!(src, sd, delay, observe_on, BoxSubscription);
      exec_box = exec;
    });
  }
  let exec = &mut exec_box;
  let cfg = format!("{:?}/{}/{}/{}", op, if threads_form { "threads" } else { "local" }, exec.name(), if cold { "cold" } else if hot_kind == 0 { "handle" } else { "subject" }).chars().filter(|c| !c.is_ascii_digit() && *c != '(' && *c != ')').collect::<String>();
  e::cfg_begin(&cfg);
  e::note(format!("{:?}{} on {} ; {} source ; input [{}]", op, if threads_form { "_threads" } else { "" }, exec.name(), if cold { "cold" } else if hot_kind == 0 { "hot(create handle)" } else { "hot(Subject)" }, script.show()));
  // cut-point machinery
  let mut points: i64 = 0;
  let mut cut_done = false;
  let mut unsub_cell = unsub;
  let mut closed_seen = false;
  let mut cut_point = |_: &mut Exec| {
    // C17: sample is_closed() of the returned subscription at every point
    if !cut_done {
      if let Some(q) = closed_cell.borrow().as_ref() {
        let c = q();
        if closed_seen && !c {
          e::fail("sched/is_closed-went-back-to-false", || "is_closed() of the returned subscription went from true back to false".to_string());
        }
        if c && !closed_seen {
          closed_seen = true;
          probe.forbid("sched/delivery-after-is_closed");
        }
      }
    }
    if do_cut && !cut_done && points == cut_at {
      if let Some(u) = unsub_cell.take() {
        e::note(format!("unsubscribe() at t={}", world::now()));
        u();
        probe.forbid(leak_key(format!("delivery-after-unsubscribe/{:?}{}", op, if threads_form { "_threads" } else { "" }).chars().filter(|c| !c.is_ascii_digit() && *c != '(' && *c != ')').collect()));
      }
      cut_done = true;
    }
    points += 1;
  };
  // feed the timed script
  let mut produced: Vec<Timed> = vec![];
  let mut sub_time: Option<u64> = None;
  let evs = script.events();
  // feedback: the subscriber's handler, on the first item it receives, pushes one more item into the source
  // (observe_on / delay only: their deliveries run in scheduled tasks, not inside the source's own emission)
  let feedback = !cold && !do_cut && matches!(op, MoveOp::ObserveOn | MoveOp::Delay(_)) && e::choose_bool();
  let fed_back: std::rc::Rc<std::cell::RefCell<Option<(Val, u64, usize)>>> = Default::default();
  let produced_n: std::rc::Rc<std::cell::Cell<(usize, bool)>> = Default::default(); // (events produced so far, terminal among them)
  if feedback {
    let vf = Val::var();
    let (fb, pn) = (fed_back.clone(), produced_n.clone());
    let mut fired = false;
    world::w(|w| {
      w.on_probe_event = Some(Box::new(move |ev: &Ev| {
        if fired || !matches!(ev, Ev::Next(_)) {
          return;
        }
        fired = true;
        let (n, terminated) = pn.get();
        e::note(format!("  (handler pushes {} into the source)", vf.show()));
        let ok = if threads_form { cat::feed_hot_t(0, &Ev::Next(vf.clone())) } else { cat::feed_hot(0, &Ev::Next(vf.clone())) };
        if ok && !terminated {
          *fb.borrow_mut() = Some((vf.clone(), world::now(), n));
        }
      }))
    });
  }
  cut_point(exec);
  if cold {
    // the source runs when the (delayed) subscription task runs
    drain(exec, 8, |x| cut_point(x));
    for ev in &evs {
      produced.push(Timed { ev: ev.clone(), at: world::now() });
    }
  } else {
    for ev in &evs {
      let gap = e::choose(3) as u64;
      if gap > 0 {
        world::step();
        world::advance(gap);
        cut_point(exec);
      }
      world::step();
      if exec.run_optional() {
        cut_point(exec);
      }
      world::step();
      let h = if threads_form { cat::feed_hot_t(0, ev) } else { cat::feed_hot(0, ev) };
      if h {
        if sub_time.is_none() {
          sub_time = Some(world::now());
        }
        e::note(format!("t={} source.{}", world::now(), world::show_ev(ev)));
        produced.push(Timed { ev: ev.clone(), at: world::now() });
        let term = produced_n.get().1 || !matches!(ev, Ev::Next(_));
        produced_n.set((produced.len(), term));
      } else {
        // not subscribed yet (subscription still scheduled): a hot source's event is lost
        e::note(format!("t={} source.{} (no subscriber yet)", world::now(), world::show_ev(ev)));
      }
      cut_point(exec);
    }
    drain(exec, 8, |x| cut_point(x));
  }
  world::w(|w| w.on_probe_event = None);
  // the fed-back item takes its place in the source's sequence: after the events produced before it
  if let Some((v, at, n)) = fed_back.borrow_mut().take() {
    produced.insert(n.min(produced.len()), Timed { ev: Ev::Next(v), at });
  }
  if do_cut {
    if !cut_done {
      e::prune();
    }
    e::cfg_end(&cfg);
    e::cover("c02-sched-path-complete");
    return;
  }
  // ---- C07 oracle
  let log = probe.log();
  let delay = match op {
    MoveOp::Delay(k) => k,
    _ => 0,
  };
  let src = Script::from_events(&produced.iter().map(|t| t.ev.clone()).collect::<Vec<_>>());
  let key = format!("{:?}{}/{}", op, if threads_form { "_threads" } else { "" }, if exec.is_fifo() { "fifo" } else { "any-order" }).replace(|c: char| c.is_ascii_digit(), "").replace("()", "");
  // expected: all items then terminal on completion; a prefix then the error on failure; items only if no terminal
  let got: Vec<Ev> = log.iter().map(|r| r.ev.clone()).collect();
  let got_items: Vec<&Val> = got.iter().filter_map(|g| if let Ev::Next(v) = g { Some(v) } else { None }).collect();
  let detail = || format!("source [{}] ; delivered [{}]", src.show(), model::show_events(&got));
  match &src.term {
    Tm::Complete | Tm::None => {
      let mut want = src.clone();
      if matches!(src.term, Tm::None) {
        want.term = Tm::None;
      }
      match model::compare(&got, &want) {
        Ok(t) => e::check(t, &format!("sequence/{}", key), detail),
        Err(why) => e::fail(&format!("sequence/{}", key), || format!("{} ; {}", why, detail())),
      }
    }
    Tm::Error(x) => {
      // a prefix of the items, then the error, nothing else
      let n = got_items.len();
      let ok_shape = got.len() == n + 1 && matches!(got.last(), Some(Ev::Err(_))) && n <= src.items.len();
      if !ok_shape {
        e::fail(&format!("sequence/{}", key), || format!("not `prefix then error` ; {}", detail()));
      }
      let mut t = crate::val::tt();
      for (a, b) in got_items.iter().zip(src.items.iter()) {
        t = crate::val::b_and(t, a.eq_t(b));
      }
      if let Some(Ev::Err(g)) = got.last() {
        t = crate::val::b_and(t, g.eq_t(x));
      }
      e::check(t, &format!("sequence/{}", key), detail);
    }
  }
  // never earlier than the configured delay after production
  let mut idx = 0;
  for r in log.iter() {
    if let Ev::Next(_) = r.ev {
      if let Some(p) = produced.get(idx) {
        if r.vtime < p.at + delay {
          e::fail(&format!("early-delivery/{}", key), || format!("item {} produced at t={} delivered at t={} (delay {})", idx, p.at, r.vtime, delay));
        }
      }
      idx += 1;
    }
  }
  if let MoveOp::DelaySubscription(k) = op {
    // nothing may be delivered before the subscription delay has elapsed
    if let Some(first) = log.first() {
      if first.vtime < k {
        e::fail(&format!("early-subscription/{}", key), || format!("first delivery at t={} but subscription was delayed by {}", first.vtime, k));
      }
    }
  }
  e::cfg_end(&cfg);
  e::cover("c07-path-complete");
}

/// `_at` forms: the requested delay must be the time remaining until the instant (real clock, tolerance 2 s).
fn c07_at_forms() {
  let which = e::choose(6);
  let off = [-(5i64), 0, 10, 1000][e::choose(4) as usize];
  let now = Instant::now();
  let at = if off >= 0 { now + Duration::from_secs(off as u64) } else { now - Duration::from_secs((-off) as u64) };
  let probe = fresh_probe();
  let sd = world::any_sched();
  let name = match which {
    0 => {
      let _u = cat::cold(vec![Val::c(1)], Tm::Complete, 0).delay_at(at, sd).actual_subscribe(probe);
      "delay_at"
    }
    1 => {
      let _u = cat::cold_t(vec![Val::c(1)], Tm::Complete, 0).delay_at_threads(at, sd).actual_subscribe(probe);
      "delay_at_threads"
    }
    2 => {
      let _u = cat::cold(vec![Val::c(1)], Tm::Complete, 0).delay_subscription_at(at, sd).actual_subscribe(probe);
      "delay_subscription_at"
    }
    3 => {
      let _u = observable::timer_at(Val::c(1), at, sd).actual_subscribe(probe);
      "timer_at"
    }
    4 => {
      let _u = observable::interval_at(at, Duration::from_millis(1000), sd).map(|n: usize| Val::c(n as i64)).take(1).actual_subscribe(probe);
      "interval_at"
    }
    _ => {
      let _u = cat::cold(vec![Val::c(1)], Tm::Complete, 0).delay(Duration::from_millis(off.max(0) as u64 * 1000), sd).actual_subscribe(probe);
      "delay"
    }
  };
  e::note(format!("{} at = now{:+}s", name, off));
  // run the scheduled tasks once so that the timer gets requested
  world::run_fifo_until_stalled(16);
  let reqs: Vec<(u64, u64)> = world::w(|w| w.timer_requests.clone());
  let want_ms = off.max(0) as u64 * 1000;
  let lo = want_ms.saturating_sub(2000);
  // only "never earlier than the time remaining" is claimed: a future instant must
  // produce a timer request of (about) the remaining time; past instants are unconstrained
  if want_ms > 0 && !reqs.iter().any(|r| r.1 >= lo && r.1 <= want_ms) {
    e::fail(&format!("at-form/{}/requested-delay", name), || format!("instant is now{:+}s but the timer requests were {:?} ms", off, reqs.iter().map(|r| r.1).collect::<Vec<_>>()));
  }
  if want_ms > 0 && probe.len() > 0 {
    e::fail(&format!("at-form/{}/early", name), || "delivered before the instant".to_string());
  }
}

/// Relative-time forms built first and subscribed after a real pause: the delay counts from subscription (for
/// delay: from the item), so the timer that is requested must be the whole duration, whatever the wall clock did
/// between construction and subscription.
fn c08_built_earlier() {
  let which = e::choose(5);
  let dur = Duration::from_millis(10_000);
  let probe = fresh_probe();
  let sd = world::any_sched();
  let pause = || std::thread::sleep(Duration::from_millis(25));
  let name = match which {
    0 => {
      let o = observable::timer(Val::c(1), dur, sd);
      pause();
      let _u = o.actual_subscribe(probe);
      "timer"
    }
    1 => {
      let o = observable::interval(dur, sd).map(|n: usize| Val::c(n as i64));
      pause();
      let _u = o.actual_subscribe(probe);
      "interval"
    }
    2 => {
      let o = cat::cold(vec![Val::c(1)], Tm::Complete, 0).delay(dur, sd);
      pause();
      let _u = o.actual_subscribe(probe);
      "delay"
    }
    3 => {
      let o = cat::cold(vec![Val::c(1)], Tm::Complete, 0).delay_subscription(dur, sd);
      pause();
      let _u = o.actual_subscribe(probe);
      "delay_subscription"
    }
    _ => {
      let o = cat::cold_t(vec![Val::c(1)], Tm::Complete, 0).delay_threads(dur, sd);
      pause();
      let _u = o.actual_subscribe(probe);
      "delay_threads"
    }
  };
  e::note(format!("{}(10 s) built, subscribed 25 ms later", name));
  world::run_fifo_until_stalled(16);
  let reqs: Vec<(u64, u64)> = world::w(|w| w.timer_requests.clone());
  if reqs.is_empty() || reqs.iter().any(|r| r.1 < 10_000) {
    e::fail(&format!("built-earlier/{}/requested-delay", name), || format!("the timers requested after subscription were {:?} ms, the configured duration is 10000 ms", reqs.iter().map(|r| r.1).collect::<Vec<_>>()));
  }
  if probe.len() > 0 {
    e::fail(&format!("built-earlier/{}/early", name), || "delivered before the duration elapsed".to_string());
  }
}

pub fn harnesses() -> Vec<HarnessDef> {
  let mut v = vec![];
  let mut add = |id: &'static str, props: Vec<&'static str>, about: &'static str, bounds: fn(bool) -> String, f: Box<dyn Fn(bool) + Send + Sync>, bq: u64, bt: u64, sampled: bool| {
    v.push(HarnessDef { id, props, about, bounds, f, budget_quick: bq, budget_thorough: bt, thorough_only: false, sampled });
  };
  add("c08_built_earlier", vec!["C08", "C07", "C19"], "timer, interval, delay, delay_subscription, delay_threads built first and subscribed after a real 25 ms pause: the requested timer is the whole configured duration", |_| "5 operators, duration 10 s".to_string(), Box::new(|_| c08_built_earlier()), 10_000, 10_000, false);
  fn b7(t: bool) -> String {
    format!("observe_on, delay(1|2), delay_subscription(1|2), subscribe_on; scripts of <= {} symbolic items with gaps 0..2 and every terminal; hot and cold sources; executor run eagerly or late at every step; LocalPool(FIFO) and ANY-order executors (threads forms: hook FIFO and ANY)", if t { 3 } else { 2 })
  }
  add("c07_move", vec!["C07", "C17"], "scheduler-moving operators (local forms): delivered sequence, prefix-on-error, never earlier than the delay", b7, Box::new(|t| c07_run(false, if t { 3 } else { 2 }, false)), 2_000_000, 40_000_000, true);
  add("c07_move_threads", vec!["C07"], "scheduler-moving operators (_threads forms)", b7, Box::new(|t| c07_run(true, if t { 3 } else { 2 }, false)), 2_000_000, 40_000_000, true);
  add("c07_at_forms", vec!["C07", "C08"], "delay_at, delay_at_threads, delay_subscription_at, timer_at, interval_at: requested delay = time remaining until the instant (real clock, instants now-5s / now / now+10s / now+1000s, tolerance 2 s)", |_| "6 operators x 4 instants".to_string(), Box::new(|_| c07_at_forms()), 10_000, 10_000, false);
  add("c02_sched", vec!["C02", "C19"], "scheduler operators: unsubscribe()/guard drop at every point of the script and of the virtual-time line, then every executor order drained and the clock advanced past every deadline", b7, Box::new(|t| c07_run(false, if t { 3 } else { 2 }, true)), 2_000_000, 40_000_000, true);
  add("c02_sched_threads", vec!["C02", "C19"], "same for the _threads forms", b7, Box::new(|t| c07_run(true, if t { 3 } else { 2 }, true)), 2_000_000, 40_000_000, true);
  v
}

// ------------------------------------------------------------------ C08: time and async sources

/// A future that is pending for `k` polls (waking itself) and then yields `v`.
pub struct ScriptFut<T> {
  pending: u32,
  v: Option<T>,
}
impl<T: Unpin> std::future::Future for ScriptFut<T> {
  type Output = T;
  fn poll(mut self: std::pin::Pin<&mut Self>, cx: &mut std::task::Context<'_>) -> std::task::Poll<T> {
    world::bump(5); // polls of the harness future
    if self.pending > 0 {
      self.pending -= 1;
      cx.waker().wake_by_ref();
      std::task::Poll::Pending
    } else {
      std::task::Poll::Ready(self.v.take().expect("ScriptFut polled after completion"))
    }
  }
}

/// A stream scripted as (polls pending before the item, item); counts pulls in counter 6.
pub struct ScriptStream<T> {
  items: std::collections::VecDeque<(u32, T)>,
  end_pending: u32,
  endless: bool,
}
impl<T: Unpin + Clone> futures::Stream for ScriptStream<T> {
  type Item = T;
  fn poll_next(mut self: std::pin::Pin<&mut Self>, cx: &mut std::task::Context<'_>) -> std::task::Poll<Option<T>> {
    world::bump(6);
    let this = &mut *self;
    if let Some(front) = this.items.front_mut() {
      if front.0 > 0 {
        front.0 -= 1;
        cx.waker().wake_by_ref();
        return std::task::Poll::Pending;
      }
      let (_, v) = if this.endless {
        // an endless stream: every item is preceded by one pending poll
        let x = this.items.front().cloned().unwrap();
        this.items.front_mut().unwrap().0 = 1;
        x
      } else {
        this.items.pop_front().unwrap()
      };
      return std::task::Poll::Ready(Some(v));
    }
    if this.end_pending > 0 {
      this.end_pending -= 1;
      cx.waker().wake_by_ref();
      return std::task::Poll::Pending;
    }
    std::task::Poll::Ready(None)
  }
}

fn c08_interval(nticks: usize) {
  let p = 1 + e::choose(3) as u64;
  let use_at = e::choose_bool();
  let kind = e::choose(2);
  let probe = fresh_probe();
  let mut exec_box: Exec;
  with_exec!(kind, |sd, exec| {
    if use_at {
      // an instant that already passed: no extra delay
      let at = Instant::now() - Duration::from_secs(1);
      let _u = observable::interval_at(at, d(p), sd).map(|n: usize| Val::c(n as i64)).actual_subscribe(probe);
    } else {
      let _u = observable::interval(d(p), sd).map(|n: usize| Val::c(n as i64)).actual_subscribe(probe);
    }
    exec_box = exec;
  });
  let exec = &mut exec_box;
  e::note(format!("interval{}({}) on {}", if use_at { "_at(past)" } else { "" }, p, exec.name()));
  let mut timely = true;
  let mut steps = 0;
  // few steps, every combination of them: a longer horizon only fits a budget by never varying the early steps
  while probe.len() < nticks && steps < nticks + 3 {
    steps += 1;
    let dt = [1u64, 2, 5][e::choose(3) as usize];
    if dt != 1 {
      timely = false;
    }
    world::advance(dt);
    if e::choose_bool() {
      exec.run();
    } else {
      timely = false;
    }
  }
  exec.run();
  let log = probe.log();
  let mut prev: Option<u64> = None;
  for (i, r) in log.iter().enumerate() {
    match &r.ev {
      Ev::Next(v) => {
        if v.sym().konst() != Some(i as i64) {
          e::fail("interval/sequence-numbers", || format!("tick {} carried {}", i, v.show()));
        }
      }
      other => e::fail("interval/terminal", || format!("interval delivered {}", world::show_ev(other))),
    }
    let earliest = match prev {
      None => p,
      Some(t) => t + p,
    };
    if r.vtime < earliest {
      e::fail("interval/early-tick", || format!("tick {} at t={} but not due before t={} (period {})", i, r.vtime, earliest, p));
    }
    if timely && r.vtime != (i as u64 + 1) * p {
      e::fail("interval/not-periodic", || format!("executor ran as timers fell due, yet tick {} came at t={} (period {})", i, r.vtime, p));
    }
    prev = Some(r.vtime);
  }
  if timely && log.len() as u64 != world::now() / p {
    e::fail("interval/missing-tick", || format!("executor ran as timers fell due until t={}, period {}, but {} ticks were delivered", world::now(), p, log.len()));
  }
  e::cover("c08-interval-path-complete");
}

fn c08_timer() {
  let dl = e::choose(4) as u64;
  let kind = e::choose(2);
  let probe = fresh_probe();
  let v = Val::var();
  let mut exec_box: Exec;
  with_exec!(kind, |sd, exec| {
    let _u = observable::timer(v.clone(), d(dl), sd).actual_subscribe(probe);
    exec_box = exec;
  });
  let exec = &mut exec_box;
  e::note(format!("timer({}) on {}", dl, exec.name()));
  for _ in 0..4 {
    let dt = e::choose(3) as u64;
    world::advance(dt);
    if e::choose_bool() {
      exec.run();
    }
  }
  drain(exec, 6, |_| {});
  let log = probe.log();
  let want = Script { items: vec![v.clone()], term: Tm::Complete };
  let got: Vec<Ev> = log.iter().map(|r| r.ev.clone()).collect();
  match model::compare(&got, &want) {
    Ok(t) => e::check(t, "timer/sequence", || format!("got [{}]", model::show_events(&got))),
    Err(why) => e::fail("timer/sequence", || format!("{} ; got [{}]", why, model::show_events(&got))),
  }
  if log[0].vtime < dl {
    e::fail("timer/early", || format!("item at t={} but due at t={}", log[0].vtime, dl));
  }
}

fn c08_async(max_items: u32) {
  let which = e::choose(5);
  if which == 4 {
    // a long stream whose items are all ready: everything is relayed in order, then complete
    let kind = e::choose(2);
    let result = e::choose_bool();
    let probe = fresh_probe();
    let n = 40usize;
    let items: Vec<Val> = (0..n).map(|i| Val::c(i as i64)).collect();
    let mut exec_box: Exec;
    if result {
      let st = ScriptStream { items: items.iter().cloned().map(|v| (0u32, Ok::<Val, Val>(v))).collect(), end_pending: 0, endless: false };
      with_exec!(kind, |sd, exec| {
        let _u = observable::from_stream_result(st, sd).actual_subscribe(probe);
        exec_box = exec;
      });
    } else {
      let st = ScriptStream { items: items.iter().cloned().map(|v| (0u32, v)).collect(), end_pending: 0, endless: false };
      with_exec!(kind, |sd, exec| {
        let _u = observable::from_stream(st, sd).actual_subscribe(probe);
        exec_box = exec;
      });
    }
    for _ in 0..12 {
      exec_box.run();
    }
    let got = probe.events();
    let want = Script { items, term: Tm::Complete };
    let key = if result { "from_stream_result/long-ready-stream" } else { "from_stream/long-ready-stream" };
    match model::compare(&got, &want) {
      Ok(t) => e::check(t, key, || format!("{} of {} items relayed, terminal {}", got.len(), n, if probe.terminated() { "seen" } else { "missing" })),
      Err(why) => e::fail(key, || format!("{} ; {} of {} items relayed, terminal {}", why, got.iter().filter(|g| matches!(g, Ev::Next(_))).count(), n, if probe.terminated() { "seen" } else { "missing" })),
    }
    return;
  }
  let kind = e::choose(2);
  let probe = fresh_probe();
  let mut exec_box: Exec;
  let want: Script;
  let name;
  match which {
    0 => {
      let v = Val::var();
      let pend = e::choose(3);
      name = "from_future";
      want = Script { items: vec![v.clone()], term: Tm::Complete };
      with_exec!(kind, |sd, exec| {
        let _u = observable::from_future(ScriptFut { pending: pend, v: Some(v.clone()) }, sd).actual_subscribe(probe);
        exec_box = exec;
      });
    }
    1 => {
      let v = Val::var();
      let pend = e::choose(3);
      let ok = e::choose_bool();
      name = "from_future_result";
      let r: Result<Val, Val> = if ok { Ok(v.clone()) } else { Err(v.clone()) };
      want = if ok { Script { items: vec![v.clone()], term: Tm::Complete } } else { Script { items: vec![], term: Tm::Error(v.clone()) } };
      with_exec!(kind, |sd, exec| {
        let _u = observable::from_future_result(ScriptFut { pending: pend, v: Some(r.clone()) }, sd).actual_subscribe(probe);
        exec_box = exec;
      });
    }
    2 => {
      let n = e::choose(max_items + 1);
      let items: Vec<(u32, Val)> = (0..n).map(|_| (e::choose(2), Val::var())).collect();
      name = "from_stream";
      want = Script { items: items.iter().map(|x| x.1.clone()).collect(), term: Tm::Complete };
      let st = ScriptStream { items: items.into_iter().collect(), end_pending: e::choose(2), endless: false };
      with_exec!(kind, |sd, exec| {
        let _u = observable::from_stream(st, sd).actual_subscribe(probe);
        exec_box = exec;
      });
    }
    _ => {
      let n = e::choose(max_items + 1);
      let err_at = e::choose(n + 1); // == n: no error
      let mut items: Vec<(u32, Result<Val, Val>)> = vec![];
      let mut w = Script { items: vec![], term: Tm::Complete };
      for i in 0..n {
        let v = Val::var();
        if i == err_at {
          items.push((e::choose(2), Err(v.clone())));
          if matches!(w.term, Tm::Complete) {
            w.term = Tm::Error(v);
          }
        } else {
          items.push((e::choose(2), Ok(v.clone())));
          if matches!(w.term, Tm::Complete) {
            w.items.push(v);
          }
        }
      }
      name = "from_stream_result";
      want = w;
      let st = ScriptStream { items: items.into_iter().collect(), end_pending: 0, endless: false };
      with_exec!(kind, |sd, exec| {
        let _u = observable::from_stream_result(st, sd).actual_subscribe(probe);
        exec_box = exec;
      });
    }
  }
  let exec = &mut exec_box;
  e::note(format!("{} on {} expecting [{}]", name, exec.name(), want.show()));
  if probe.len() != 0 {
    e::fail(&format!("{}/eager", name), || "delivered before the executor ran".to_string());
  }
  for _ in 0..12 {
    exec.run();
  }
  let got = probe.events();
  let key = format!("{}/sequence", name);
  match model::compare(&got, &want) {
    Ok(t) => e::check(t, &key, || format!("got [{}] expected [{}]", model::show_events(&got), want.show())),
    Err(why) => e::fail(&key, || format!("{} ; got [{}] expected [{}]", why, model::show_events(&got), want.show())),
  }
}

// ------------------------------------------------------------------ C09: rate limiting

#[derive(Clone, Copy, PartialEq, Debug)]
enum RateOp {
  Debounce(u64),
  Throttle(u64, u8), // window, edge: 0 leading, 1 tailing, 2 all
  ThrottleTime(u64, u8),
  SampleInterval(u64),
  BufferTime(u64),
  BufferCountTime(usize, u64),
}

fn ids(v: &Val, out: &mut Vec<u32>) {
  match v {
    Val::S(s) => out.push(s.0),
    Val::L(l) => l.iter().for_each(|x| ids(x, out)),
    Val::P(a, b) => {
      ids(a, out);
      ids(b, out)
    }
    _ => {}
  }
}

fn c09_rate(max_items: u32) {
  c09_rate_x(max_items, false)
}

/// `twin`: the operator value is built once and a *clone* of it is subscribed a second time
/// (its own hot input gets an item right before each of ours); our output must not change (C13).
fn c09_rate_x(max_items: u32, twin: bool) {
  let w = 1 + e::choose(2) as u64;
  let op = match e::choose(6) {
    0 => RateOp::Debounce(w),
    // throttle also with a zero-length window (its timer is due at once)
    1 => RateOp::Throttle(if twin { w } else { e::choose(3) as u64 }, e::choose(3) as u8),
    2 => RateOp::ThrottleTime(if twin { w } else { e::choose(3) as u64 }, e::choose(3) as u8),
    3 => RateOp::SampleInterval(w),
    4 => RateOp::BufferTime(w),
    _ => RateOp::BufferCountTime(1 + e::choose(2) as usize, w),
  };
  // throttle's window length may depend on the item that opens the window: w+1 for items above a symbolic threshold
  let dep = !twin && matches!(op, RateOp::Throttle(..)) && e::choose_bool();
  let dep_th = Val::var();
  let script = draw_script(max_items, true);
  let kind = e::choose(2);
  let probe = fresh_probe();
  let mut exec_box: Exec;
  let edge_of = |k: u8| match k {
    0 => ThrottleEdge::leading(),
    1 => ThrottleEdge::tailing(),
    _ => ThrottleEdge::all(),
  };
  let probe_b = fresh_probe();
  macro_rules! twin_sub {
    ($o:expr) => {{
      let o = $o;
      if twin {
        let o2 = o.clone();
        let _ua = o.actual_subscribe(probe);
        let _ub = o2.actual_subscribe(probe_b);
      } else {
        let _u = o.actual_subscribe(probe);
      }
    }};
  }
  with_exec!(kind, |sd, exec| {
    let src = cat::hot();
    match op {
      RateOp::Debounce(w) => {
        twin_sub!(src.debounce(d(w), sd));
      }
      RateOp::Throttle(w, k) => {
        let th = dep_th.clone();
        twin_sub!(src.throttle(move |v: &Val| if dep && model::pred(0, &th, v) { d(w + 1) } else { d(w) }, edge_of(k), sd));
      }
      RateOp::ThrottleTime(w, k) => {
        // throttle_time's boxed selector is not Clone: a single subscription only
        let _u = src.throttle_time(d(w), edge_of(k), sd).actual_subscribe(probe);
      }
      RateOp::SampleInterval(w) => {
        twin_sub!(src.sample(observable::interval(d(w), sd).map(|n: usize| Val::c(n as i64)).on_error_map(|_: std::convert::Infallible| Val::c(0))));
      }
      RateOp::BufferTime(w) => {
        twin_sub!(src.buffer_with_time(d(w), sd).map(|v: Vec<Val>| Val::L(v)));
      }
      RateOp::BufferCountTime(n, w) => {
        twin_sub!(src.buffer_with_count_and_time(n, d(w), sd).map(|v: Vec<Val>| Val::L(v)));
      }
    }
    exec_box = exec;
  });
  let exec = &mut exec_box;
  let cfg09 = format!("{:?}/{}", op, exec.name()).chars().filter(|c| !c.is_ascii_digit() && *c != '(' && *c != ')' && *c != ',' && *c != ' ').collect::<String>();
  e::cfg_begin(&cfg09);
  e::note(format!("{:?}{} on {} ; input [{}]", op, if dep { format!(" (window +1 for items > {})", dep_th.show()) } else { String::new() }, exec.name(), script.show()));
  // exact timed models (debounce, throttle): driven by the same executor runs
  let mut want: Vec<Ev> = vec![];
  let mut pending: Option<(Val, u64)> = None; // debounce: (value, due)
  let mut window_due: Option<u64> = None; // throttle: the window's task is scheduled and has not run yet
  let mut trailing: Option<Val> = None;
  let mut out_done = false;
  macro_rules! model_exec_run {
    () => {{
      let now = world::now();
      match op {
        RateOp::Debounce(_) => {
          if let Some((v, due)) = pending.clone() {
            if due <= now && !out_done {
              want.push(Ev::Next(v));
              pending = None;
            }
          }
        }
        RateOp::Throttle(_, _) | RateOp::ThrottleTime(_, _) => {
          if let Some(due) = window_due {
            if due <= now {
              window_due = None;
              if let Some(v) = trailing.take() {
                if !out_done {
                  want.push(Ev::Next(v));
                }
              }
            }
          }
        }
        _ => {}
      }
    }};
  }
  let mut h = cat::handle(0);
  for ev in script.events() {
    let gap = e::choose(4) as u64;
    // move the clock to the event's instant; the executor runs as timers fall due
    let target = world::now() + gap;
    while let Some(t) = world::next_deadline() {
      if t >= target {
        break;
      }
      let now = world::now();
      world::advance(t - now);
      exec.run();
      model_exec_run!();
    }
    let now = world::now();
    world::advance(target - now);
    // same instant: timers first or the source event first
    let timers_first = e::choose_bool();
    if timers_first {
      exec.run();
      model_exec_run!();
    }
    let twin_after = twin && e::choose_bool();
    if twin && !twin_after {
      if let Some(mut hb) = cat::handle_nth(0, 1) {
        hb.next(Val::var());
      }
    }
    e::note(format!("t={} source.{}", world::now(), world::show_ev(&ev)));
    feed(&mut h, &ev);
    if twin_after {
      if let Some(mut hb) = cat::handle_nth(0, 1) {
        e::note("  (twin subscription's input emits)".to_string());
        hb.next(Val::var());
      }
    }
    // model of the source event
    let now = world::now();
    let _ = timers_first;
    match (&op, &ev) {
      (RateOp::Debounce(w), Ev::Next(v)) => pending = Some((v.clone(), now + w)),
      (RateOp::Debounce(_), Ev::Complete) => {
        if let Some((v, _)) = pending.take() {
          want.push(Ev::Next(v));
        }
        want.push(Ev::Complete);
        out_done = true;
      }
      (RateOp::Throttle(w, k), Ev::Next(v)) | (RateOp::ThrottleTime(w, k), Ev::Next(v)) => {
        let (leading, tailing) = (*k == 0 || *k == 2, *k == 1 || *k == 2);
        if tailing {
          trailing = Some(v.clone());
        }
        if window_due.is_none() {
          if leading {
            want.push(Ev::Next(v.clone()));
            // the leading item is not delivered a second time on the trailing edge
            trailing = None;
          }
          window_due = Some(now + if dep && model::pred(0, &dep_th, v) { w + 1 } else { *w });
        }
      }
      (RateOp::Throttle(..), Ev::Complete) | (RateOp::ThrottleTime(..), Ev::Complete) => {
        if let Some(v) = trailing.take() {
          want.push(Ev::Next(v));
        }
        window_due = None;
        want.push(Ev::Complete);
        out_done = true;
      }
      (RateOp::Debounce(_), Ev::Err(x)) | (RateOp::Throttle(..), Ev::Err(x)) | (RateOp::ThrottleTime(..), Ev::Err(x)) => {
        pending = None;
        trailing = None;
        window_due = None;
        want.push(Ev::Err(x.clone()));
        out_done = true;
      }
      _ => {}
    }
    // freshly spawned tasks get their first poll now (their timers start at this instant);
    // timers that were due at this instant and have not run yet fire after the source event
    exec.run();
    model_exec_run!();
  }
  // drain: run at every remaining deadline
  for _ in 0..6 {
    exec.run();
    model_exec_run!();
    match world::next_deadline() {
      Some(t) => {
        if matches!(op, RateOp::SampleInterval(_) | RateOp::BufferTime(_) | RateOp::BufferCountTime(..)) && matches!(script.term, Tm::None) && world::now() > 12 {
          break; // periodic timers of a never-ending stream: bounded horizon
        }
        let now = world::now();
        world::advance(t - now);
      }
      None => break,
    }
  }
  exec.run();
  model_exec_run!();
  let got = probe.events();
  let key = format!("{:?}", op).chars().filter(|c| c.is_ascii_alphabetic()).collect::<String>();
  let key = match op {
    RateOp::Throttle(_, k) | RateOp::ThrottleTime(_, k) => format!("{}/{}", key, ["leading", "tailing", "all"][k as usize]),
    _ => key,
  };
  // generic: only source items, each at most once, in source order
  let mut src_ids = vec![];
  script.items.iter().for_each(|v| ids(v, &mut src_ids));
  let mut out_ids = vec![];
  for g in &got {
    if let Ev::Next(v) = g {
      ids(v, &mut out_ids);
    }
  }
  let mut pos = 0usize;
  for o in &out_ids {
    match src_ids[pos..].iter().position(|s| s == o) {
      Some(k) => pos += k + 1,
      None => e::fail(&format!("rate/{}/invented-duplicated-or-reordered", key), || format!("input [{}] ; output [{}]", script.show(), model::show_events(&got))),
    }
  }
  match op {
    RateOp::Debounce(_) | RateOp::Throttle(..) | RateOp::ThrottleTime(..) => {
      let detail = || format!("input [{}] ; got [{}] ; expected [{}]", script.show(), model::show_events(&got), model::show_events(&want));
      match model::compare_events(&got, &want) {
        Ok(t) => e::check(t, &format!("rate/{}/timed-model", key), detail),
        Err(why) => e::fail(&format!("rate/{}/timed-model", key), || format!("{} ; {}", why, detail())),
      }
    }
    RateOp::BufferTime(_) | RateOp::BufferCountTime(..) => {
      for g in &got {
        if let Ev::Next(Val::L(l)) = g {
          if l.is_empty() {
            e::fail(&format!("rate/{}/empty-buffer", key), || "an empty buffer was emitted".to_string());
          }
          if let RateOp::BufferCountTime(n, _) = op {
            if l.len() > n {
              e::fail(&format!("rate/{}/buffer-over-count", key), || format!("buffer of {} items, limit {}", l.len(), n));
            }
          }
        }
      }
      match &script.term {
        Tm::Complete => {
          if out_ids != src_ids || !matches!(got.last(), Some(Ev::Complete)) {
            e::fail(&format!("rate/{}/concatenation", key), || format!("input [{}] ; output [{}]", script.show(), model::show_events(&got)));
          }
        }
        Tm::Error(_) => {
          if !matches!(got.last(), Some(Ev::Err(_))) {
            e::fail(&format!("rate/{}/error-not-forwarded", key), || format!("output [{}]", model::show_events(&got)));
          }
        }
        Tm::None => {
          // the source stays open and quiet: the periodic flush must have handed out every item by now (the
          // drain above moved the clock several periods past the last item and ran the executor at each deadline)
          if out_ids != src_ids {
            e::fail(&format!("rate/{}/item-withheld", key), || format!("the source is quiet and several periods have passed, yet only [{}] of input [{}] was delivered", model::show_events(&got), script.show()));
          }
        }
      }
    }
    RateOp::SampleInterval(_) => match &script.term {
      Tm::Complete => {
        if !matches!(got.last(), Some(Ev::Complete)) {
          e::fail(&format!("rate/{}/terminal", key), || format!("output [{}]", model::show_events(&got)));
        }
      }
      Tm::Error(_) => {
        if !matches!(got.last(), Some(Ev::Err(_))) {
          e::fail(&format!("rate/{}/terminal", key), || format!("output [{}]", model::show_events(&got)));
        }
      }
      Tm::None => {}
    },
  }
  e::cfg_end(&cfg09);
  e::cover("c09-path-complete");
}

// ------------------------------------------------------------------ C19: scheduled tasks

#[derive(Clone, Copy)]
struct TaskArgs {
  id: usize,
}
#[derive(Clone, Copy)]
struct FlagSub {
  id: usize,
}
impl Subscription for FlagSub {
  fn unsubscribe(self) {
    world::bump(40 + self.id);
  }
  fn is_closed(&self) -> bool {
    world::counter(40 + self.id) > 0
  }
}
// counters: 10+id run count, 20+id time of (last) run, 30+id forbidden flag (set when unsubscribe returned), 40+id produced subscription unsubscribed, 50+id last seq
fn ran(id: usize) {
  let n = world::bump(10 + id);
  let period = world::counter(60 + id);
  let last = world::counter(20 + id);
  if n > 1 && period > 0 && (world::now() as i64) < last + period {
    e::fail("task/repeat-faster-than-period", || format!("repeating task {} ran at t={} and again at t={} (period {})", id, last, world::now(), period));
  }
  if n == 1 {
    world::set_counter(70 + id, world::now() as i64);
  }
  world::set_counter(20 + id, world::now() as i64);
  if world::counter(30 + id) != 0 {
    e::fail("task/ran-after-unsubscribe", || format!("task {} body started after unsubscribe() on its handle had returned", id));
  }
}
fn once_body(a: TaskArgs) -> NormalReturn<()> {
  ran(a.id);
  NormalReturn::new(())
}
fn sub_body(a: TaskArgs) -> SubscribeReturn<FlagSub> {
  ran(a.id);
  SubscribeReturn::new(FlagSub { id: a.id })
}
fn repeat_body(a: &mut TaskArgs, seq: usize) -> bool {
  ran(a.id);
  let last = world::counter(50 + a.id);
  if seq as i64 != last {
    e::fail("task/repeat-seq", || format!("repeating task {} got seq {} after {}", a.id, seq, last - 1));
  }
  world::set_counter(50 + a.id, seq as i64 + 1);
  // declines after its third run
  seq < 2
}

fn c19_tasks(ntasks: usize) {
  let kind = e::choose(2);
  #[derive(Clone, Copy, PartialEq, Debug)]
  enum K {
    Once,
    Sub,
    Repeat(u64),
  }
  let mut specs: Vec<(K, Option<u64>)> = vec![];
  for _ in 0..ntasks {
    let k = match e::choose(3) {
      0 => K::Once,
      1 => K::Sub,
      _ => K::Repeat(1 + e::choose(2) as u64),
    };
    let delay = match e::choose(4) {
      0 => None,
      n => Some(n as u64 - 1),
    };
    specs.push((k, delay));
  }
  let mut cancels: Vec<Option<Box<dyn FnOnce()>>> = vec![];
  let mut closed_q: Vec<Box<dyn Fn() -> bool>> = vec![];
  let mut exec_box: Exec;
  with_exec!(kind, |sd, exec| {
    for (id, (k, delay)) in specs.iter().enumerate() {
      let delay = delay.map(d);
      match k {
        K::Once => {
          let h = sd.schedule(OnceTask::new(once_body, TaskArgs { id }), delay);
          let h = std::rc::Rc::new(std::cell::RefCell::new(Some(h)));
          let h2 = h.clone();
          cancels.push(Some(Box::new(move || {
            if let Some(x) = h.borrow_mut().take() {
              x.unsubscribe()
            }
          })));
          closed_q.push(Box::new(move || h2.borrow().as_ref().map_or(false, |x| x.is_closed())));
        }
        K::Sub => {
          let h = sd.schedule(OnceTask::new(sub_body, TaskArgs { id }), delay);
          let h = std::rc::Rc::new(std::cell::RefCell::new(Some(h)));
          let h2 = h.clone();
          cancels.push(Some(Box::new(move || {
            if let Some(x) = h.borrow_mut().take() {
              x.unsubscribe()
            }
          })));
          closed_q.push(Box::new(move || h2.borrow().as_ref().map_or(false, |x| x.is_closed())));
        }
        K::Repeat(p) => {
          world::set_counter(60 + id, *p as i64);
          let h = sd.schedule(RepeatTask::new(d(*p), repeat_body, TaskArgs { id }), delay);
          let h = std::rc::Rc::new(std::cell::RefCell::new(Some(h)));
          let h2 = h.clone();
          cancels.push(Some(Box::new(move || {
            if let Some(x) = h.borrow_mut().take() {
              x.unsubscribe()
            }
          })));
          closed_q.push(Box::new(move || h2.borrow().as_ref().map_or(false, |x| x.is_closed())));
        }
      }
    }
    exec_box = exec;
  });
  let exec = &mut exec_box;
  e::note(format!("tasks {:?} on {}", specs, exec.name()));
  let spawn_time = world::now();
  let mut closed_seen_runs: Vec<Option<i64>> = vec![None; ntasks];
  let mut check_all = |cancelled: &Vec<bool>| {
    for id in 0..ntasks {
      let runs = world::counter(10 + id);
      let (k, delay) = specs[id];
      if !matches!(k, K::Repeat(_)) && runs > 1 {
        e::fail("task/ran-twice", || format!("one-shot task {} ran {} times", id, runs));
      }
      if runs > 0 {
        // never before its delay has elapsed; a repeating task runs once per period, so its first run needs one
        // whole period to have passed since it was handed over (the period timer and the delay run concurrently)
        let first_allowed = spawn_time as i64 + (delay.unwrap_or(0) as i64).max(if let K::Repeat(p) = k { p as i64 } else { 0 });
        let t = world::counter(70 + id);
        if t < first_allowed {
          e::fail("task/ran-early", || format!("task {} ran at t={} but was not due before t={}", id, t, first_allowed));
        }
      }
      // a subscribing task's handle is closed only when what it produced is closed
      if matches!(k, K::Sub) && !cancelled[id] && closed_q[id]() && world::counter(40 + id) == 0 {
        e::fail("task/handle-closed-while-its-product-is-live", || format!("the handle of subscribing task {} reports is_closed() although the subscription the task produced is still open", id));
      }
      // a handle that reported closed: its task can no longer act
      if !cancelled[id] {
        if let Some(r) = closed_seen_runs[id] {
          if runs != r {
            e::fail("task/acted-after-is_closed", || format!("task {} ran again after its handle reported is_closed()", id));
          }
        }
        if closed_q[id]() && closed_seen_runs[id].is_none() && !matches!(k, K::Sub) {
          closed_seen_runs[id] = Some(runs);
        }
      }
    }
  };
  let mut cancelled = vec![false; ntasks];
  for _step in 0..(3 + ntasks) {
    // a cancellation?
    let c = e::choose(ntasks as u32 + 1) as usize;
    if c > 0 {
      let id = c - 1;
      if let Some(f) = cancels[id].take() {
        e::note(format!("t={} cancel task {}", world::now(), id));
        f();
        world::set_counter(30 + id, 1);
        cancelled[id] = true;
        if matches!(specs[id].0, K::Sub) && world::counter(10 + id) > 0 && world::counter(40 + id) == 0 {
          e::fail("task/produced-subscription-not-unsubscribed", || format!("subscribing task {} had run; cancelling its handle did not unsubscribe what it produced", id));
        }
      } else {
        e::prune();
      }
    }
    check_all(&cancelled);
    let dt = e::choose(3) as u64;
    world::advance(dt);
    if e::choose_bool() {
      exec.run();
    }
    check_all(&cancelled);
  }
  drain(exec, 10, |_| {});
  check_all(&cancelled);
  for id in 0..ntasks {
    let runs = world::counter(10 + id);
    if !cancelled[id] {
      let want = match specs[id].0 {
        K::Repeat(_) => 3,
        _ => 1,
      };
      if runs != want {
        e::fail("task/run-count", || format!("task {} (never cancelled) ran {} times after the executor was drained, expected {}", id, runs, want));
      }
    }
  }
  e::cover("c19-path-complete");
}

// ------------------------------------------------------------------ C16: producers retire

struct CountingIter {
  next: i64,
}
impl Iterator for CountingIter {
  type Item = Val;
  fn next(&mut self) -> Option<Val> {
    let pulls = world::bump(7);
    if pulls > 64 {
      let pid = world::counter(8) as usize;
      if !world::w(|w| w.probes.get(pid).map_or(false, |p| p.terminated)) {
        // the pipeline legitimately never ends on this unbounded input: not a C16 question
        e::prune();
      }
      // an unbounded pull loop would never return: stop it and report
      e::fail("producer/from_iter/keeps-pulling", || "the iterator source kept pulling after the subscriber had terminated (would never return for an unbounded iterator)".to_string());
    }
    self.next += 1;
    Some(Val::c(self.next - 1))
  }
}

#[derive(Clone, Copy, PartialEq, Debug)]
enum Cutter {
  Take(usize),
  First,
  ElementAt(usize),
  TakeWhileLt(i64),
  Contains(i64),
  AllLt(i64),
  TakeUntilHot,
}

fn apply_cutter(o: Obs, c: Cutter) -> Obs {
  match c {
    Cutter::Take(n) => o.take(n).box_it(),
    Cutter::First => o.first().box_it(),
    Cutter::ElementAt(n) => o.element_at(n).box_it(),
    Cutter::TakeWhileLt(k) => o.take_while(move |v: &Val| v.sym().konst().unwrap_or(0) < k).box_it(),
    Cutter::Contains(k) => o.contains(Val::c(k)).map(|b: bool| Val::B(b)).box_it(),
    Cutter::AllLt(k) => o.all(move |v: Val| v.sym().konst().unwrap_or(0) < k).map(|b: bool| Val::B(b)).box_it(),
    Cutter::TakeUntilHot => o.take_until(cat::hot_tagged(9)).box_it(),
  }
}

fn c16_producers(depth: usize) {
  let producer = e::choose(3); // 0 interval, 1 from_iter(counting), 2 from_stream(endless)
  let cutter = match e::choose(7) {
    0 => Cutter::Take(1 + e::choose(2) as usize),
    1 => Cutter::First,
    2 => Cutter::ElementAt(e::choose(2) as usize),
    3 => Cutter::TakeWhileLt(1 + e::choose(2) as i64),
    4 => Cutter::Contains(e::choose(2) as i64),
    5 => Cutter::AllLt(1 + e::choose(2) as i64),
    _ => Cutter::TakeUntilHot,
  };
  // intermediate operators that keep the items flowing
  let mids = [model::Op::Map, model::Op::Filter, model::Op::Tap, model::Op::Skip, model::Op::ScanInitial, model::Op::DistinctUntilChanged, model::Op::Pairwise, model::Op::BoxIt, model::Op::Finalize, model::Op::StartWith];
  let mut chain = vec![];
  for i in 0..depth {
    let op = mids[e::choose(mids.len() as u32) as usize];
    let mut p = draw_params(op, 1, 60 + i);
    // concrete, always-true predicate / neutral parameters: the chain must not starve the cutter
    p.pk = 0;
    p.th = Val::c(-1000);
    p.n = 0;
    chain.push((op, p));
  }
  // position: producer as main input, or as notifier of a two-input operator whose main is a hot handle
  let pos = e::choose(3); // 0 main, 1 notifier of take_until(main hot), 2 sampler of sample(main hot)
  let p = 1 + e::choose(2) as u64;
  let probe = fresh_probe();
  world::set_counter(8, probe.id as i64);
  let sd = world::any_sched();
  let prod: Obs = match producer {
    0 => observable::interval(d(p), sd.clone()).map(|n: usize| Val::c(n as i64)).on_error_map(|_: std::convert::Infallible| Val::c(0)).box_it(),
    1 => observable::from_iter(CountingIter { next: 0 }).on_error_map(|_: std::convert::Infallible| Val::c(0)).box_it_local_once(),
    _ => observable::from_stream(ScriptStream { items: vec![(1u32, Val::c(0))].into_iter().collect(), end_pending: 0, endless: true }, sd.clone()).on_error_map(|_: std::convert::Infallible| Val::c(0)).box_it_local_once(),
  };
  let prod = build_chain(prod, &chain);
  // an operator that owns scheduled work of its own (periodic flush task, timers): it must retire too
  let owns = e::choose(7);
  let prod: Obs = match owns {
    1 => prod.buffer_with_time(d(p), sd.clone()).map(|v: Vec<Val>| v.into_iter().next().unwrap_or(Val::c(0))).box_it(),
    2 => prod.buffer_with_count_and_time(2, d(p), sd.clone()).map(|v: Vec<Val>| v.into_iter().next().unwrap_or(Val::c(0))).box_it(),
    3 => prod.delay(d(1), sd.clone()).box_it(),
    4 => prod.observe_on(sd.clone()).box_it(),
    5 => prod.debounce(d(1), sd.clone()).box_it(),
    6 => prod.sample(observable::interval(d(p), sd.clone()).map(|n: usize| Val::c(n as i64)).on_error_map(|_: std::convert::Infallible| Val::c(0))).box_it(),
    _ => prod,
  };
  e::note(format!("task-owning stage: {}", ["none", "buffer_with_time", "buffer_with_count_and_time", "delay", "observe_on", "debounce", "sample(interval)"][owns as usize]));
  e::note(format!("producer {} (period {}) -> {} -> {:?} ; position {}", ["interval", "from_iter(counting)", "from_stream(endless)"][producer as usize], p, chain.iter().map(|(o, p)| show_p(*o, p)).collect::<Vec<_>>().join(" -> "), cutter, ["main", "notifier of take_until", "sampler of sample"][pos as usize]));
  let piped: Obs = match pos {
    0 => apply_cutter(prod, cutter),
    1 => apply_cutter(cat::hot_tagged(8).take_until(prod).box_it(), cutter),
    _ => apply_cutter(cat::hot_tagged(8).sample(prod).box_it(), cutter),
  };
  let cfg16 = format!("{}/{}/{}", ["interval", "from_iter", "from_stream"][producer as usize], ["main", "take_until-notifier", "sample-sampler"][pos as usize], owns);
  // a synchronous unbounded iterator in front of an asynchronous stage never returns from subscribe:
  // such configurations are legitimately never judged, so the vacuity guard does not apply to them
  if producer != 1 {
    e::cfg_begin(&cfg16);
  }
  let _u = subscribe(piped, probe);
  // drive: the executor runs as timers fall due; the hot main input (if any) emits one item per period
  let mut rounds = 0;
  while !probe.terminated() && rounds < 10 {
    rounds += 1;
    world::run_fifo_bounded(32);
    if let Some(mut h) = cat::handle_nth(8, 0) {
      h.next(Val::c(rounds));
    }
    if rounds == 4 {
      if let Some(mut h) = cat::handle_nth(9, 0) {
        h.next(Val::c(0)); // the take_until notifier fires
      }
    }
    if probe.terminated() {
      break;
    }
    world::advance(p);
  }
  if !probe.terminated() {
    // some combinations legitimately never end (e.g. contains(k) that never matches): not a C16 question
    e::prune();
  }
  let pulls_at_terminal = world::counter(7) + world::counter(6);
  // within one period every producer feeding this subscriber must have retired (the polls are
  // generous: a task-owning stage may have one short-lived task per item in flight)
  world::run_fifo_bounded(1024);
  world::advance(p);
  world::run_fifo_bounded(1024);
  world::advance(p);
  world::run_fifo_bounded(1024);
  world::advance(p);
  world::run_fifo_bounded(1024);
  let live = world::live_tasks();
  let name = ["interval", "from_iter", "from_stream"][producer as usize];
  if live != 0 {
    e::fail(&format!("producer/{}/task-still-live/{}", name, ["main", "take_until-notifier", "sample-sampler"][pos as usize]), || format!("{} task(s) still live one period after the subscriber terminated: running a local scheduler until idle would not return", live));
  }
  let pulls_after = world::counter(7) + world::counter(6);
  if producer != 0 && pulls_after > pulls_at_terminal + 1 {
    e::fail(&format!("producer/{}/keeps-pulling", name), || format!("{} further pulls after the subscriber terminated", pulls_after - pulls_at_terminal));
  }
  e::cfg_end(&cfg16);
  e::cover("c16-producer-path-complete");
}

trait BoxLocalOnce {
  fn box_it_local_once(self) -> Obs;
}
impl<T> BoxLocalOnce for T
where
  T: Observable<Val, Val, rxrust::observer::BoxObserver<'static, Val, Val>> + 'static,
  T::Unsub: 'static,
{
  /// a non-Clone source (the counting iterator) as an `Obs`: cloning panics, it is subscribed once
  fn box_it_local_once(self) -> Obs {
    let cell = std::rc::Rc::new(std::cell::RefCell::new(Some(self)));
    observable::create(move |s: cat::Handle| {
      let src = cell.borrow_mut().take().expect("single-use source subscribed twice");
      let _ = src.actual_subscribe(rxrust::observer::BoxObserver::new(s));
    })
    .box_it()
  }
}

pub fn harnesses2() -> Vec<HarnessDef> {
  let mut v = vec![];
  let mut add = |id: &'static str, props: Vec<&'static str>, about: &'static str, bounds: fn(bool) -> String, f: Box<dyn Fn(bool) + Send + Sync>, bq: u64, bt: u64, sampled: bool| {
    v.push(HarnessDef { id, props, about, bounds, f, budget_quick: bq, budget_thorough: bt, thorough_only: false, sampled });
  };
  add("c08_interval", vec!["C08"], "interval / interval_at: consecutive integers, first tick one period after subscription, never early however late the executor runs, exactly periodic when it runs as timers fall due", |t| format!("periods 1..3; {} ticks; clock steps of 1, 2 and 5; executor runs optional at every step; LocalPool and ANY-order", if t { 4 } else { 3 }), Box::new(|t| c08_interval(if t { 4 } else { 3 })), 600_000, 20_000_000, true);
  add("c08_timer", vec!["C08"], "timer: item once, not before the due time, then complete", |_| "delays 0..3; 4 optional-run steps of 0..2 then drain".to_string(), Box::new(|_| c08_timer()), 2_000_000, 2_000_000, false);
  add("c08_async", vec!["C08", "C13"], "from_future, from_future_result, from_stream, from_stream_result relay exactly the scripted values / error, nothing before the executor runs", |t| format!("futures pending 0..2 polls; streams of <= {} items each pending 0..1 polls, error at every position", if t { 4 } else { 3 }), Box::new(|t| c08_async(if t { 4 } else { 3 })), 2_000_000, 20_000_000, false);
  add("c09_rate", vec!["C09", "C01"], "debounce, throttle/throttle_time x {leading, tailing, all}, sample(interval), buffer_with_time, buffer_with_count_and_time on the virtual clock: only source items, at most once, in order; exact timed models for debounce and throttle; buffer laws", |t| format!("<= {} symbolic items with gaps 0..3; windows 1..2; at every instant timers-first or source-first; executor timely or late; LocalPool and ANY-order", if t { 4 } else { 3 }), Box::new(|t| c09_rate(if t { 4 } else { 3 })), 3_000_000, 40_000_000, true);
  add("c13_rate_twin", vec!["C13", "C09"], "scheduler-using operators (debounce, throttle x3, sample, buffer_with_time, buffer_with_count_and_time): a clone of the same operator value subscribed a second time over its own hot input must not change the first subscription's output (no handle / buffer / window shared between subscriptions)", |t| format!("<= {} symbolic items; the twin's input gets an item right before or after each of ours", if t { 3 } else { 2 }), Box::new(|t| c09_rate_x(if t { 3 } else { 2 }, true)), 6_000_000, 40_000_000, true);
  add("c19_tasks", vec!["C19"], "schedule(): one-shot, subscribing and repeating tasks; cancellation at every point; run orders; never early, at most once / consecutive seq, nothing after unsubscribe() returned", |t| format!("{} tasks; delays none/0/1/2; periods 1..2; LocalPool and ANY-order", if t { 3 } else { 2 }), Box::new(|t| c19_tasks(if t { 3 } else { 2 })), 700_000, 40_000_000, true);
  add("c16_producers", vec!["C16"], "interval / from_iter(counting) / from_stream(endless) under intermediate operators and every early-terminating operator, producer in main and notifier position: no live task one period after the terminal, pulls bounded", |t| format!("{} intermediate operators; periods 1..2", if t { 2 } else { 1 }), Box::new(|t| c16_producers(if t { 2 } else { 1 })), 2_000_000, 20_000_000, true);
  v
}

// ------------------------------------------------------------------ C02 for every other operator / source that schedules work

/// interned keys (a handful of distinct strings per process)
pub fn leak_key(s: String) -> &'static str {
  use std::collections::HashMap;
  use std::sync::Mutex;
  static KEYS: once_cell::sync::Lazy<Mutex<HashMap<String, &'static str>>> = once_cell::sync::Lazy::new(|| Mutex::new(HashMap::new()));
  let mut m = KEYS.lock().unwrap();
  if let Some(k) = m.get(&s) {
    return k;
  }
  let k: &'static str = Box::leak(s.clone().into_boxed_str());
  m.insert(s, k);
  k
}

fn c02_sched_more(max_items: u32) {
  let which = e::choose(14);
  let w = 1 + e::choose(2) as u64;
  let kind = e::choose(2);
  let script = draw_script(max_items, true);
  let probe = fresh_probe();
  let by_guard = e::choose(3);
  let mut unsub: Option<Box<dyn FnOnce()>> = None;
  let mut exec_box: Exec;
  let name;
  macro_rules! keep {
    ($u:expr) => {{
      let u = $u;
      unsub = Some(Box::new(move || release(u, by_guard)));
    }};
  }
  let usize_to_val = |n: usize| Val::c(n as i64);
  with_exec!(kind, |sd, exec| {
    name = match which {
      0 => {
        keep!(cat::hot().debounce(d(w), sd).actual_subscribe(probe));
        "debounce"
      }
      1 | 2 | 3 => {
        let edge = match which {
          1 => ThrottleEdge::leading(),
          2 => ThrottleEdge::tailing(),
          _ => ThrottleEdge::all(),
        };
        keep!(cat::hot().throttle_time(d(w), edge, sd).actual_subscribe(probe));
        ["", "throttle_time(leading)", "throttle_time(tailing)", "throttle_time(all)"][which as usize]
      }
      4 => {
        keep!(cat::hot().sample(observable::interval(d(w), sd).map(usize_to_val).on_error_map(|_: std::convert::Infallible| Val::c(0))).actual_subscribe(probe));
        "sample(interval)"
      }
      5 => {
        keep!(cat::hot().buffer_with_time(d(w), sd).map(|v: Vec<Val>| Val::L(v)).actual_subscribe(probe));
        "buffer_with_time"
      }
      6 => {
        keep!(cat::hot().buffer_with_count_and_time(2, d(w), sd).map(|v: Vec<Val>| Val::L(v)).actual_subscribe(probe));
        "buffer_with_count_and_time"
      }
      7 => {
        keep!(observable::interval(d(w), sd).map(usize_to_val).actual_subscribe(probe));
        "interval"
      }
      8 => {
        keep!(observable::timer(Val::c(7), d(w), sd).actual_subscribe(probe));
        "timer"
      }
      9 => {
        keep!(observable::from_future(ScriptFut { pending: 2, v: Some(Val::c(7)) }, sd).actual_subscribe(probe));
        "from_future"
      }
      10 => {
        let st = ScriptStream { items: vec![(1u32, Val::c(1)), (1, Val::c(2)), (1, Val::c(3))].into_iter().collect(), end_pending: 1, endless: false };
        keep!(observable::from_stream(st, sd).actual_subscribe(probe));
        "from_stream"
      }
      11 => {
        // flattening with a periodic inner and a hot inner
        let sd2 = sd.clone();
        keep!(cat::hot()
          .flat_map(move |v: Val| -> Obs {
            if e::branch(v.sym().modc(2).eq_t(crate::val::Sym::c(0))) {
              observable::interval(d(w), sd2.clone()).map(|n: usize| Val::c(n as i64)).on_error_map(|_: std::convert::Infallible| Val::c(0)).box_it()
            } else {
              cat::hot_tagged(5)
            }
          })
          .actual_subscribe(probe));
        "flat_map(interval|hot)"
      }
      12 => {
        keep!(observable::interval(d(w), sd).map(usize_to_val).on_error_map(|_: std::convert::Infallible| Val::c(0)).share().actual_subscribe(probe));
        "interval.share"
      }
      _ => {
        keep!(cat::hot().delay(d(w), sd.clone()).observe_on(sd).actual_subscribe(probe));
        "delay.observe_on"
      }
    };
    exec_box = exec;
  });
  let exec = &mut exec_box;
  e::note(format!("{} (window/period {}) on {} ; input [{}]", name, w, exec.name(), script.show()));
  e::cfg_begin(&format!("{}/{}", name, exec.name()));
  let cut_at = e::choose(12) as i64;
  let mut points: i64 = 0;
  let mut cut_done = false;
  let why: &'static str = leak_key(format!("delivery-after-unsubscribe/{}", name));
  let mut cut_point = |_: &mut Exec| {
    if !cut_done && points == cut_at {
      if let Some(u) = unsub.take() {
        e::note(format!("unsubscribe() at t={}", world::now()));
        u();
        probe.forbid(why);
      }
      cut_done = true;
    }
    points += 1;
  };
  cut_point(exec);
  for ev in script.events() {
    let gap = e::choose(3) as u64;
    if gap > 0 {
      world::advance(gap);
      cut_point(exec);
    }
    if exec.run_optional() {
      cut_point(exec);
    }
    if let Some(mut h) = cat::handle_nth(0, 0) {
      e::note(format!("t={} source.{}", world::now(), world::show_ev(&ev)));
      feed(&mut h, &ev);
    }
    if let Some(mut h) = cat::handle_nth(5, 0) {
      feed(&mut h, &Ev::Next(Val::c(50)));
    }
    cut_point(exec);
  }
  // drain with a bounded horizon (periodic sources never stop by themselves)
  for _ in 0..6 {
    exec.run();
    cut_point(exec);
    match world::next_deadline() {
      Some(t) => {
        let now = world::now();
        world::advance(t - now);
        cut_point(exec);
      }
      None => break,
    }
  }
  exec.run();
  if !cut_done {
    e::prune();
  }
  e::cfg_end(&format!("{}/{}", name, exec_box.name()));
  e::cover("c02-sched-more-path-complete");
}

pub fn harnesses3() -> Vec<HarnessDef> {
  vec![HarnessDef {
    id: "c02_sched_more",
    props: vec!["C02"],
    about: "debounce, throttle_time x3, sample(interval), buffer_with_time, buffer_with_count_and_time, interval, timer, from_future, from_stream, flat_map over interval/hot inners, interval.share, delay.observe_on: unsubscribe()/guard drop at every point of the script and virtual-time line",
    bounds: |t| format!("<= {} items, gaps 0..2, windows/periods 1..2, 12 cut points, LocalPool and ANY-order executors", if t { 3 } else { 2 }),
    f: Box::new(|t| c02_sched_more(if t { 3 } else { 2 })),
    budget_quick: 3_000_000,
    budget_thorough: 40_000_000,
    thorough_only: false,
    sampled: true,
  }]
}

// ------------------------------------------------------------------ C13: a second, overlapping subscription of a clone must not disturb the first

fn all_logs_of(p: Probe) -> Vec<Ev> {
  p.events()
}

/// The operator value is built once. Run 1: one subscription A driven by a symbolic script.
/// Run 2 (same choices replayed): a clone is subscribed a second time at a chosen moment, its own
/// hot inputs emit alongside ours, and it is unsubscribed at another chosen moment. A's log must
/// be identical: no counter, flag, buffer, queue, timer slot or teardown registry may live in the
/// operator value.
fn c13_twin(k: usize, family: usize) {
  use crate::cat::Op2;
  let unary = {
    let mut v = model::C03_OPS.to_vec();
    v.extend_from_slice(model::PASS_OPS);
    v
  };
  let nsched = 7usize;
  let nbin = crate::cat::OPS2.len();
  // one harness per operator family, so that each can be explored exhaustively
  let which = match family {
    0 => e::choose(nsched as u32) as usize,
    1 => nsched + e::choose(nbin as u32) as usize,
    _ => nsched + nbin + e::choose(unary.len() as u32) as usize,
  };
  let two_inputs = family == 1;
  let p = if which >= nsched + nbin { Some(draw_params(unary[which - nsched - nbin], k as u32, 10)) } else { None };
  let b_at = e::choose(k as u32 + 1) as usize;
  let b_unsub = e::choose(k as u32 + 2) as usize; // k+1 = never
  let name = if which < nsched {
    ["observe_on", "delay", "debounce", "throttle(tailing)", "buffer_with_time", "buffer_with_count_and_time", "sample(interval)"][which].to_string()
  } else if which < nsched + nbin {
    format!("{:?}", crate::cat::OPS2[which - nsched])
  } else {
    op_name(unary[which - nsched - nbin])
  };
  e::note(format!("{} ; twin subscribes before step {}, unsubscribes before step {}", name, b_at, b_unsub));
  e::cfg_begin(&name);
  let (a, b, diverged) = e::twice(
    |second| {
      let sd = world::any_sched();
      let src = cat::hot_tagged(0);
      let o: Obs = if which < nsched {
        match which {
          0 => src.observe_on(sd).box_it(),
          1 => src.delay(d(1), sd).box_it(),
          2 => src.debounce(d(1), sd).box_it(),
          3 => src.throttle(|_v: &Val| d(1), ThrottleEdge::tailing(), sd).box_it(),
          4 => src.buffer_with_time(d(1), sd).map(|v: Vec<Val>| Val::L(v)).box_it(),
          5 => src.buffer_with_count_and_time(2, d(1), sd).map(|v: Vec<Val>| Val::L(v)).box_it(),
          _ => src.sample(observable::interval(d(1), sd).map(|n: usize| Val::c(n as i64)).on_error_map(|_: std::convert::Infallible| Val::c(0))).box_it(),
        }
      } else if which < nsched + nbin {
        let op2: Op2 = crate::cat::OPS2[which - nsched];
        crate::cat::build2(op2, src, cat::hot_tagged(1))
      } else {
        crate::cat::build(unary[which - nsched - nbin], src, p.as_ref().unwrap())
      };
      let pa = fresh_probe();
      let pb = fresh_probe();
      let _ua = o.clone().actual_subscribe(pa);
      let mut ub = None;
      let mut b_live = false;
      for i in 0..k {
        if second && i == b_at {
          ub = Some(o.clone().actual_subscribe(pb));
          b_live = true;
        }
        if second && i == b_unsub {
          if let Some(u) = ub.take() {
            u.unsubscribe();
            b_live = false;
          }
        }
        let tag = if two_inputs { e::choose(2) as usize } else { 0 };
        let ev = match e::choose(3) {
          0 => Ev::Next(Val::var()),
          1 => Ev::Complete,
          _ => Ev::Err(Val::var()),
        };
        if second && b_live {
          // the twin's own inputs are busy too
          if let Some(mut h) = cat::handle_nth(tag, 1) {
            h.next(Val::c(-5));
          }
        }
        if let Some(mut h) = cat::handle_nth(tag, 0) {
          feed(&mut h, &ev);
        }
        if second && b_live {
          if let Some(mut h) = cat::handle_nth(tag, 1) {
            h.next(Val::c(-6));
          }
        }
        world::run_fifo_until_stalled(64);
        // the clock only matters to the scheduler family
        if family == 0 && e::choose_bool() {
          world::advance(1);
          world::run_fifo_until_stalled(64);
        }
      }
      for _ in 0..3 {
        world::advance(1);
        world::run_fifo_until_stalled(64);
      }
      all_logs_of(pa)
    },
    || world::reset_world(),
  );
  if diverged {
    e::fail(&format!("twin/{}/control-flow-diverged", name), || "the run with a second subscription asked for different choices".to_string());
  }
  let key = format!("twin/{}/first-subscription-disturbed", name);
  let detail = || format!("alone [{}] ; with an overlapping second subscription of a clone [{}]", model::show_events(&a), model::show_events(&b));
  match model::compare_events(&a, &b) {
    Ok(t) => e::check(t, &key, detail),
    Err(why) => e::fail(&key, || format!("{} ; {}", why, detail())),
  }
  e::cfg_end(&name);
  e::cover("c13-twin-path-complete");
}

thread_local! {
  static PHASE: std::cell::Cell<usize> = std::cell::Cell::new(0);
}
/// a hot input created per subscription (a handle or a Subject of its own), registered under `base + 10 * phase`
fn phased(base: usize, kind: u32) -> Obs {
  observable::defer(move || cat::hot_kind(base + 10 * PHASE.with(|p| p.get()), kind)).box_it()
}

/// Successive subscriptions: the operator value is built once. Run 1: a single subscription B driven by script B.
/// Run 2: a clone is first subscribed as A and driven by script A (arbitrary events, errors included) on inputs of
/// its own, then B as before. B's log must be identical: whatever A went through, nothing of it may be left in the
/// operator value (flags, latches, counters, and the captured state of user closures, which each subscription must
/// get as a fresh clone).
fn c13_successive(k: usize, family: usize) {
  let only_stateful = family == 0;
  use crate::cat::Op2;
  let unary = {
    let mut v = model::C03_OPS.to_vec();
    v.extend_from_slice(model::PASS_OPS);
    v
  };
  let nstate = 4usize;
  let nbin = crate::cat::OPS2.len();
  let which = match family {
    0 => e::choose(nstate as u32) as usize,
    1 => nstate + e::choose(nbin as u32) as usize,
    _ => nstate + nbin + e::choose(unary.len() as u32) as usize,
  };
  let _ = only_stateful;
  let p = if which >= nstate + nbin { Some(draw_params(unary[which - nstate - nbin], k as u32, 10)) } else { None };
  let kinds = [e::choose(2), e::choose(2)];
  let name = if which < nstate {
    ["map(stateful closure)", "filter_map(stateful closure)", "combine_latest(stateful closure)", "take_while(stateful closure)"][which].to_string()
  } else if which < nstate + nbin {
    format!("{:?}", crate::cat::OPS2[which - nstate])
  } else {
    op_name(unary[which - nstate - nbin])
  };
  let two_inputs = which == 2 || (which >= nstate && which < nstate + nbin);
  let draw = |n: usize| -> Vec<(usize, Ev)> {
    (0..n)
      .map(|_| {
        let tag = if two_inputs { e::choose(2) as usize } else { 0 };
        let ev = match e::choose(3) {
          0 => Ev::Next(Val::var()),
          1 => Ev::Complete,
          _ => Ev::Err(Val::var()),
        };
        (tag, ev)
      })
      .collect()
  };
  let script_a = draw(k);
  let script_b = draw(k);
  let show = |s: &[(usize, Ev)]| s.iter().map(|(t, e)| format!("{}:{}", t, world::show_ev(e))).collect::<Vec<_>>().join(" ");
  e::note(format!("{} over {:?} inputs ; first subscription [{}] ; then a second one [{}]", name, kinds, show(&script_a), show(&script_b)));
  e::cfg_begin(&name);
  let (a, b, diverged) = e::twice(
    |second| {
      PHASE.with(|p| p.set(0));
      let src = phased(0, kinds[0]);
      let o: Obs = if which < nstate {
        match which {
          0 => {
            let mut n = 0i64;
            src.map(move |v: Val| {
              n += 1;
              model::plus(&v, &Val::c(n))
            })
            .box_it()
          }
          1 => {
            let mut n = 0i64;
            src.filter_map(move |v: Val| {
              n += 1;
              if n % 2 == 1 { Some(v) } else { None }
            })
            .box_it()
          }
          2 => {
            let mut n = 0i64;
            src
              .combine_latest(phased(1, kinds[1]), move |x: Val, y: Val| {
                n += 1;
                (model::plus(&x, &Val::c(n)), y)
              })
              .map(|(x, y): (Val, Val)| Val::pair(x, y))
              .box_it()
          }
          _ => {
            let mut n = 0i64;
            src
              .take_while(move |_v: &Val| {
                n += 1;
                n <= 2
              })
              .box_it()
          }
        }
      } else if which < nstate + nbin {
        let op2: Op2 = crate::cat::OPS2[which - nstate];
        crate::cat::build2(op2, src, phased(1, kinds[1]))
      } else {
        crate::cat::build(unary[which - nstate - nbin], src, p.as_ref().unwrap())
      };
      if second {
        let pa = fresh_probe();
        std::mem::forget(o.clone().actual_subscribe(pa));
        for (tag, ev) in &script_a {
          cat::feed_hot(*tag, ev);
        }
      }
      PHASE.with(|p| p.set(1));
      let pb = fresh_probe();
      std::mem::forget(o.clone().actual_subscribe(pb));
      for (tag, ev) in &script_b {
        cat::feed_hot(10 + *tag, ev);
      }
      PHASE.with(|p| p.set(0));
      all_logs_of(pb)
    },
    || world::reset_world(),
  );
  if diverged {
    e::fail(&format!("successive/{}/control-flow-diverged", name), || "the run with an earlier subscription asked for different choices".to_string());
  }
  let key = format!("successive/{}/later-subscription-differs", name);
  let detail = || format!("alone [{}] ; after an earlier subscription of a clone [{}]", model::show_events(&a), model::show_events(&b));
  match model::compare_events(&a, &b) {
    Ok(t) => e::check(t, &key, detail),
    Err(why) => e::fail(&key, || format!("{} ; {}", why, detail())),
  }
  e::cfg_end(&name);
  e::cover("c13-successive-path-complete");
}

/// Nested subscriptions: a clone of the pipeline is subscribed from *inside* a notification that another
/// subscription of it is delivering (from a queued inner started on an inner's completion path; from a scheduler
/// task). Its log must be the one the same subscription produces when made at top level: no ambient state (a
/// thread-local "we are inside …" flag, a borrowed cell) may leak from the subscription that is on the stack.
fn c13_nested(max_items: u32) {
  let kind = e::choose(6);
  let xs: Vec<Val> = (0..1 + e::choose(max_items)).map(|_| Val::var()).collect();
  let cs: Vec<Val> = (0..1 + e::choose(max_items)).map(|_| Val::var()).collect();
  let at = e::choose(3) as usize; // the delivery of the outer subscription from inside which the clone is subscribed
  let v = Val::var();
  let name = ["concat_all", "merge_all(1)", "concat_map", "observe_on + merge", "subscribe_on + merge", "delay + merge"][kind as usize];
  e::note(format!("{} ; the clone is subscribed from inside delivery #{} of another subscription ; xs [{}] cs [{}]", name, at, xs.iter().map(|v| v.show()).collect::<Vec<_>>().join(" "), cs.iter().map(|v| v.show()).collect::<Vec<_>>().join(" ")));
  e::cfg_begin(name);
  let (a, b, diverged) = e::twice(
    |second| {
      let sd = world::any_sched();
      PHASE.with(|p| p.set(0));
      let (xs1, xs2, cs1) = (xs.clone(), xs.clone(), cs.clone());
      // first inner / first branch: hot in phase 0 (the outer subscription), cold in phase 1 (the nested clone)
      let first: Obs = observable::defer(move || if PHASE.with(|p| p.get()) == 0 { cat::hot_tagged(0) } else { cat::cold(xs1.clone(), Tm::Complete, 0) }).box_it();
      let o: Obs = match kind {
        // (concat_all / concat_map values are not Clone: built per subscription; what is looked for here is ambient, not per-value, state)
        0 => observable::defer(move || observable::from_iter(vec![first.clone(), cat::cold(cs1.clone(), Tm::Complete, 0)]).on_error_map(|_: std::convert::Infallible| Val::c(0)).concat_all()).box_it(),
        1 => observable::defer(move || observable::from_iter(vec![first.clone(), cat::cold(cs1.clone(), Tm::Complete, 0)]).on_error_map(|_: std::convert::Infallible| Val::c(0)).merge_all(1)).box_it(),
        2 => {
          let inners = vec![first, cat::cold(cs1, Tm::Complete, 0)];
          observable::defer(move || {
            let inners = inners.clone();
            observable::from_iter(vec![0usize, 1]).on_error_map(|_: std::convert::Infallible| Val::c(0)).concat_map(move |i: usize| inners[i].clone())
          })
          .box_it()
        }
        3 => cat::cold(xs2, Tm::Complete, 0).observe_on(sd).merge(cat::cold(cs1, Tm::Complete, 0)).box_it(),
        4 => cat::cold(xs2, Tm::Complete, 0).subscribe_on(sd).merge(cat::cold(cs1, Tm::Complete, 0)).box_it(),
        _ => cat::cold(xs2, Tm::Complete, 0).delay(d(0), sd).merge(cat::cold(cs1, Tm::Complete, 0)).box_it(),
      };
      let pb = fresh_probe();
      if second {
        let pa = fresh_probe();
        let o2 = o.clone();
        let mut seen = 0usize;
        let mut done = false;
        world::w(|w| {
          w.on_probe_event = Some(Box::new(move |_ev: &Ev| {
            if done {
              return;
            }
            if seen == at {
              done = true;
              e::note("  (a clone is subscribed from inside this notification)".to_string());
              PHASE.with(|p| p.set(1));
              std::mem::forget(o2.clone().actual_subscribe(pb));
              PHASE.with(|p| p.set(0));
            }
            seen += 1;
          }))
        });
        std::mem::forget(o.clone().actual_subscribe(pa));
        if kind < 3 {
          // the outer subscription's hot inner emits and completes: the queued cold inner starts on that path
          cat::feed_hot(0, &Ev::Next(v.clone()));
          cat::feed_hot(0, &Ev::Complete);
        }
        for _ in 0..4 {
          world::run_fifo_until_stalled(64);
          world::advance(1);
        }
        world::w(|w| w.on_probe_event = None);
        if pb.len() == 0 && !pb.terminated() && pa.len() <= at {
          // the outer subscription never reached delivery #at: nothing was nested; subscribe at top level instead
          PHASE.with(|p| p.set(1));
          std::mem::forget(o.clone().actual_subscribe(pb));
          PHASE.with(|p| p.set(0));
        }
      } else {
        PHASE.with(|p| p.set(1));
        std::mem::forget(o.clone().actual_subscribe(pb));
        PHASE.with(|p| p.set(0));
      }
      for _ in 0..4 {
        world::run_fifo_until_stalled(64);
        world::advance(1);
      }
      all_logs_of(pb)
    },
    || world::reset_world(),
  );
  if diverged {
    e::fail(&format!("nested/{}/control-flow-diverged", name), || "the nested run asked for different choices".to_string());
  }
  let key = format!("nested/{}/differs-from-top-level", name);
  let detail = || format!("subscribed at top level [{}] ; subscribed from inside another subscription's notification [{}]", model::show_events(&a), model::show_events(&b));
  match model::compare_events(&a, &b) {
    Ok(t) => e::check(t, &key, detail),
    Err(why) => e::fail(&key, || format!("{} ; {}", why, detail())),
  }
  e::cfg_end(name);
  e::cover("c13-nested-path-complete");
}

pub fn harnesses4() -> Vec<HarnessDef> {
  fn hd(id: &'static str, about: &'static str, bounds: fn(bool) -> String, f: Box<dyn Fn(bool) + Send + Sync>, sampled: bool) -> HarnessDef {
    HarnessDef { id, props: vec!["C13"], about, bounds, f, budget_quick: 3_000_000, budget_thorough: 40_000_000, thorough_only: false, sampled }
  }
  fn bs(t: bool) -> String {
    format!("{} events for the first and {} for the second subscription; inputs created per subscription (handle or Subject)", if t { 4 } else { 3 }, if t { 4 } else { 3 })
  }
  fn bt(t: bool) -> String {
    format!("{} events on the hot inputs; twin subscribe / unsubscribe moments chosen; hook-FIFO executor", if t { 4 } else { 3 })
  }
  vec![
    hd("c13_nested", "a clone subscribed from inside a notification of another subscription of the same pipeline (delivered on a flattening operator's queue-start path, or by a scheduler task) behaves as one subscribed at top level", |t| format!("concat_all, merge_all(1), concat_map, observe_on/subscribe_on/delay + merge; <= {} symbolic items per part; nested at delivery 0..2", if t { 3 } else { 2 }), Box::new(|t| c13_nested(if t { 3 } else { 2 })), false),
    hd("c13_stateful", "map / filter_map / combine_latest / take_while with stateful FnMut closures: a second subscription of a clone starts from the closure's state at build time, whatever an earlier subscription did to its own copy", bs, Box::new(|t| c13_successive(if t { 4 } else { 3 }, 0)), false),
    hd("c13_successive_binary", "successive subscriptions of clones of one two-input operator value: the second one's log does not depend on what the first one went through (errors included)", bs, Box::new(|t| c13_successive(if t { 4 } else { 3 }, 1)), false),
    hd("c13_successive_unary", "the same for every unary operator of the catalogue", bs, Box::new(|t| c13_successive(if t { 4 } else { 3 }, 2)), true),
    hd("c13_twin_sched", "non-interference: a clone of the same operator value subscribed a second time (at any moment, with busy inputs, unsubscribed at any moment) leaves the first subscription's log unchanged; observe_on, delay, debounce, throttle, buffer_with_time, buffer_with_count_and_time, sample(interval)", bt, Box::new(|t| c13_twin(if t { 4 } else { 3 }, 0)), false),
    hd("c13_twin_binary", "the same for the 8 two-input operators", bt, Box::new(|t| c13_twin(if t { 4 } else { 3 }, 1)), false),
    hd("c13_twin_unary", "the same for every unary operator of the catalogue", bt, Box::new(|t| c13_twin(if t { 4 } else { 3 }, 2)), true),
  ]
}
