//! Operator catalogue: every single-input operator as a function on the
//! library's own cloneable boxed observable, so that chains are composed at
//! run time (the chain shape is a `choose` variable). Local and thread-safe
//! forms come from the same macro body.
use crate::model::{key2, plus, pred, Op, P};
use crate::val::Val;
use crate::world::bump;
use rxrust::prelude::*;
use rxrust::ops::box_it::{CloneableBoxOp, CloneableBoxOpThreads};
use rxrust::observer::{BoxObserver, BoxObserverThreads};
use std::cell::RefCell;

pub type Obs = CloneableBoxOp<'static, Val, Val>;
pub type ObsT = CloneableBoxOpThreads<Val, Val>;
pub type Handle = Subscriber<BoxObserver<'static, Val, Val>>;
pub type HandleT = SubscriberThreads<BoxObserverThreads<Val, Val>>;

thread_local! {
  pub static HANDLES: RefCell<Vec<(usize, Handle)>> = RefCell::new(vec![]);
  pub static HANDLES_T: RefCell<Vec<(usize, HandleT)>> = RefCell::new(vec![]);
}

thread_local! {
  pub static SUBJECTS: RefCell<Vec<(usize, Subject<'static, Val, Val>)>> = RefCell::new(vec![]);
  pub static SUBJECTS_T: RefCell<Vec<(usize, SubjectThreads<Val, Val>)>> = RefCell::new(vec![]);
  /// tags of Subject inputs that have sibling subscribers of the harness's own (kind 2)
  pub static SIBLINGS: RefCell<Vec<usize>> = RefCell::new(vec![]);
}

/// a subscriber that ignores everything: the sibling subscribers of a Subject input
#[derive(Clone, Copy)]
pub struct Dummy;
impl Observer<Val, Val> for Dummy {
  fn next(&mut self, _v: Val) {}
  fn error(self, _e: Val) {}
  fn complete(self) {}
  fn is_finished(&self) -> bool {
    false
  }
}
fn has_siblings(tag: usize) -> bool {
  SIBLINGS.with(|s| s.borrow().contains(&tag))
}
/// The Subject behind input `tag` (Subject kinds only).
pub fn subject_of(tag: usize) -> Option<Subject<'static, Val, Val>> {
  SUBJECTS.with(|h| h.borrow().iter().find(|(t, _)| *t == tag).map(|(_, s)| s.clone()))
}
pub fn subject_of_t(tag: usize) -> Option<SubjectThreads<Val, Val>> {
  SUBJECTS_T.with(|h| h.borrow().iter().find(|(t, _)| *t == tag).map(|(_, s)| s.clone()))
}
/// Subscribe one more, live, sibling to the Subject input `tag` (after the harness's own subscription).
pub fn add_late_sibling(tag: usize) {
  if !has_siblings(tag) {
    return;
  }
  if let Some(s) = SUBJECTS.with(|h| h.borrow().iter().find(|(t, _)| *t == tag).map(|(_, s)| s.clone())) {
    std::mem::forget(s.actual_subscribe(Dummy));
  }
  if let Some(s) = SUBJECTS_T.with(|h| h.borrow().iter().find(|(t, _)| *t == tag).map(|(_, s)| s.clone())) {
    std::mem::forget(s.actual_subscribe(Dummy));
  }
}

pub fn reset_handles() {
  let a = HANDLES.with(|h| std::mem::take(&mut *h.borrow_mut()));
  let b = HANDLES_T.with(|h| std::mem::take(&mut *h.borrow_mut()));
  let c = SUBJECTS.with(|h| std::mem::take(&mut *h.borrow_mut()));
  let d = SUBJECTS_T.with(|h| std::mem::take(&mut *h.borrow_mut()));
  SIBLINGS.with(|s| s.borrow_mut().clear());
  let _ = std::panic::catch_unwind(std::panic::AssertUnwindSafe(move || {
    drop(a);
    drop(b);
    drop(c);
    drop(d);
  }));
}

/// Hot input of either kind: a parked `create` subscriber handle (kind 0), a Subject (kind 1), or a Subject that
/// already has an earlier subscriber which has left again and still occupies its slot (kind 2; the harness may add
/// a later live one with `add_late_sibling`). The pipeline under test is then one subscriber among several.
pub fn hot_kind(tag: usize, kind: u32) -> Obs {
  if kind == 0 {
    hot_tagged(tag)
  } else {
    let s: Subject<'static, Val, Val> = Subject::default();
    SUBJECTS.with(|h| h.borrow_mut().push((tag, s.clone())));
    if kind == 2 {
      SIBLINGS.with(|x| x.borrow_mut().push(tag));
      s.clone().actual_subscribe(Dummy).unsubscribe();
    }
    if kind == 3 {
      // kind 3: the Subject that is fed is upstream of a second Subject used as a relay observer
      // (`upstream.actual_subscribe(relay)`); the pipeline under test subscribes to the relay
      SIBLINGS.with(|x| x.borrow_mut().push(tag));
      let relay: Subject<'static, Val, Val> = Subject::default();
      std::mem::forget(s.clone().actual_subscribe(relay.clone()));
      return relay.box_it();
    }
    s.box_it()
  }
}
pub fn hot_kind_t(tag: usize, kind: u32) -> ObsT {
  if kind == 0 {
    hot_tagged_t(tag)
  } else {
    let s: SubjectThreads<Val, Val> = SubjectThreads::default();
    SUBJECTS_T.with(|h| h.borrow_mut().push((tag, s.clone())));
    if kind == 2 {
      SIBLINGS.with(|x| x.borrow_mut().push(tag));
      s.clone().actual_subscribe(Dummy).unsubscribe();
    }
    if kind == 3 {
      SIBLINGS.with(|x| x.borrow_mut().push(tag));
      let relay: SubjectThreads<Val, Val> = SubjectThreads::default();
      std::mem::forget(s.clone().actual_subscribe(relay.clone()));
      return relay.box_it();
    }
    s.box_it()
  }
}

/// Deliver an event to the hot input `tag` (whichever kind it is); false if nobody is subscribed to a handle-kind input yet.
pub fn feed_hot(tag: usize, ev: &crate::world::Ev) -> bool {
  use crate::world::Ev;
  if let Some(mut h) = handle_nth(tag, 0) {
    match ev {
      Ev::Next(v) => h.next(v.clone()),
      Ev::Err(x) => h.clone().error(x.clone()),
      Ev::Complete => h.clone().complete(),
    }
    return true;
  }
  let s = SUBJECTS.with(|h| h.borrow().iter().find(|(t, _)| *t == tag).map(|(_, s)| s.clone()));
  if let Some(mut s) = s {
    if !has_siblings(tag) && s.is_empty() {
      return false; // nobody is subscribed (yet): a hot source's event is lost
    }
    match ev {
      Ev::Next(v) => s.next(v.clone()),
      Ev::Err(x) => s.error(x.clone()),
      Ev::Complete => s.complete(),
    }
    return true;
  }
  false
}
pub fn feed_hot_t(tag: usize, ev: &crate::world::Ev) -> bool {
  use crate::world::Ev;
  if let Some(mut h) = handle_t_nth(tag, 0) {
    match ev {
      Ev::Next(v) => h.next(v.clone()),
      Ev::Err(x) => h.clone().error(x.clone()),
      Ev::Complete => h.clone().complete(),
    }
    return true;
  }
  let s = SUBJECTS_T.with(|h| h.borrow().iter().find(|(t, _)| *t == tag).map(|(_, s)| s.clone()));
  if let Some(mut s) = s {
    if !has_siblings(tag) && s.is_empty() {
      return false;
    }
    match ev {
      Ev::Next(v) => s.next(v.clone()),
      Ev::Err(x) => s.error(x.clone()),
      Ev::Complete => s.complete(),
    }
    return true;
  }
  false
}
/// is the source-side view of hot input `tag` closed / finished?
pub fn hot_is_closed(tag: usize) -> Option<bool> {
  if let Some(h) = handle_nth(tag, 0) {
    return Some(h.is_closed());
  }
  None
}
pub fn hot_is_finished(tag: usize) -> Option<bool> {
  if let Some(h) = handle_nth(tag, 0) {
    return Some(Observer::<Val, Val>::is_finished(&h));
  }
  None
}

/// Hot input: `observable::create` whose subscriber handle is parked (under `tag`) for the script.
pub fn hot_tagged(tag: usize) -> Obs {
  observable::create(move |s: Handle| HANDLES.with(|h| h.borrow_mut().push((tag, s)))).box_it()
}
pub fn hot_tagged_t(tag: usize) -> ObsT {
  observable::create(move |s: HandleT| HANDLES_T.with(|h| h.borrow_mut().push((tag, s)))).box_it()
}
pub fn hot() -> Obs {
  hot_tagged(0)
}
pub fn hot_t() -> ObsT {
  hot_tagged_t(0)
}
/// the n-th handle parked under `tag` (one per subscription of that hot source)
pub fn handle_nth(tag: usize, n: usize) -> Option<Handle> {
  HANDLES.with(|h| h.borrow().iter().filter(|(t, _)| *t == tag).nth(n).map(|(_, h)| h.clone()))
}
pub fn handle_t_nth(tag: usize, n: usize) -> Option<HandleT> {
  HANDLES_T.with(|h| h.borrow().iter().filter(|(t, _)| *t == tag).nth(n).map(|(_, h)| h.clone()))
}
pub fn handle(tag: usize) -> Handle {
  handle_nth(tag, 0).expect("hot source was not subscribed")
}
pub fn handle_t(tag: usize) -> HandleT {
  handle_t_nth(tag, 0).expect("hot source was not subscribed")
}
pub fn handles_len() -> usize {
  HANDLES.with(|h| h.borrow().len())
}
pub fn handles_t_len() -> usize {
  HANDLES_T.with(|h| h.borrow().len())
}

/// Cold synchronous source: emits the script inside `actual_subscribe`.
pub fn cold(items: Vec<Val>, term: crate::model::Tm, ctr: usize) -> Obs {
  observable::create(move |mut s: Handle| {
    bump(ctr);
    for v in items {
      s.next(v);
    }
    match term {
      crate::model::Tm::None => {}
      crate::model::Tm::Complete => s.complete(),
      crate::model::Tm::Error(e) => s.error(e),
    }
  })
  .box_it()
}
pub fn cold_t(items: Vec<Val>, term: crate::model::Tm, ctr: usize) -> ObsT {
  observable::create(move |mut s: HandleT| {
    bump(ctr);
    for v in items {
      s.next(v);
    }
    match term {
      crate::model::Tm::None => {}
      crate::model::Tm::Complete => s.complete(),
      crate::model::Tm::Error(e) => s.error(e),
    }
  })
  .box_it()
}

/// `src` relayed through a Subject that is its observer: the subscriber joins the subject, then
/// the source is connected to it (what `publish()` + `connect()` do)
#[derive(Clone)]
pub struct Relay(pub Obs);
impl<O: Observer<Val, Val> + 'static> Observable<Val, Val, O> for Relay {
  type Unsub = ZipSubscription<Subscriber<O>, BoxSubscription<'static>>;
  fn actual_subscribe(self, observer: O) -> Self::Unsub {
    let c = self.0.publish::<Subject<'static, Val, Val>>();
    let u1 = c.fork().actual_subscribe(observer);
    let u2 = c.connect();
    ZipSubscription::new(u1, u2)
  }
}
impl ObservableExt<Val, Val> for Relay {}
#[derive(Clone)]
pub struct RelayT(pub ObsT);
impl<O: Observer<Val, Val> + Send + 'static> Observable<Val, Val, O> for RelayT {
  type Unsub = ZipSubscription<SubscriberThreads<O>, BoxSubscriptionThreads>;
  fn actual_subscribe(self, observer: O) -> Self::Unsub {
    let c = self.0.publish::<SubjectThreads<Val, Val>>();
    let u1 = c.fork().actual_subscribe(observer);
    let u2 = c.connect();
    ZipSubscription::new(u1, u2)
  }
}
impl ObservableExt<Val, Val> for RelayT {}

/// the same for a source that is not Clone
pub struct RelayG<S>(pub S);
impl<S, O: Observer<Val, Val> + 'static> Observable<Val, Val, O> for RelayG<S>
where
  S: Observable<Val, Val, Subject<'static, Val, Val>> + ObservableExt<Val, Val>,
  S::Unsub: 'static,
{
  type Unsub = ZipSubscription<Subscriber<O>, S::Unsub>;
  fn actual_subscribe(self, observer: O) -> Self::Unsub {
    let c = self.0.publish::<Subject<'static, Val, Val>>();
    let u1 = c.fork().actual_subscribe(observer);
    let u2 = c.connect();
    ZipSubscription::new(u1, u2)
  }
}
impl<S> ObservableExt<Val, Val> for RelayG<S> {}
pub struct RelayGT<S>(pub S);
impl<S, O: Observer<Val, Val> + Send + 'static> Observable<Val, Val, O> for RelayGT<S>
where
  S: Observable<Val, Val, SubjectThreads<Val, Val>> + ObservableExt<Val, Val>,
  S::Unsub: Send + 'static,
{
  type Unsub = ZipSubscription<SubscriberThreads<O>, S::Unsub>;
  fn actual_subscribe(self, observer: O) -> Self::Unsub {
    let c = self.0.publish::<SubjectThreads<Val, Val>>();
    let u1 = c.fork().actual_subscribe(observer);
    let u2 = c.connect();
    ZipSubscription::new(u1, u2)
  }
}
impl<S> ObservableExt<Val, Val> for RelayGT<S> {}

macro_rules! catalogue {
  ($fname:ident, $obs:ty, $finalize:ident, $relay:ident, $subj:ty, $flat_map:ident) => {
    pub fn $fname(op: Op, src: $obs, p: &P) -> $obs {
      let th = p.th.clone();
      let pk = p.pk;
      let n = p.n;
      let ctr = p.ctr;
      match op {
        Op::Map => src.map(move |v: Val| plus(&v, &th)).box_it(),
        Op::MapTo => src.map_to(th).box_it(),
        Op::Filter => src.filter(move |v: &Val| pred(pk, &th, v)).box_it(),
        Op::FilterMap => src
          .filter_map(move |v: Val| if pred(pk, &th, &v) { Some(plus(&v, &th)) } else { None })
          .box_it(),
        Op::Tap => src
          .tap(move |_v: &Val| {
            bump(ctr);
          })
          .box_it(),
        Op::Take => src.take(n).box_it(),
        Op::Skip => src.skip(n).box_it(),
        Op::TakeWhile => src.take_while(move |v: &Val| pred(pk, &th, v)).box_it(),
        Op::TakeWhileInclusive => src.take_while_inclusive(move |v: &Val| pred(pk, &th, v)).box_it(),
        Op::SkipWhile => src.skip_while(move |v: &Val| pred(pk, &th, v)).box_it(),
        Op::TakeLast => src.take_last(n).box_it(),
        Op::SkipLast => src.skip_last(n).box_it(),
        Op::First => src.first().box_it(),
        Op::FirstOr => src.first_or(th).box_it(),
        Op::Last => src.last().box_it(),
        Op::LastOr => src.last_or(th).box_it(),
        Op::ElementAt => src.element_at(n).box_it(),
        Op::IgnoreElements => src.ignore_elements().box_it(),
        Op::StartWith => src.start_with(p.vs.clone()).box_it(),
        Op::DefaultIfEmpty => src.default_if_empty(th).box_it(),
        Op::ScanInitial => src.scan_initial(th, |a: Val, v: Val| plus(&a, &v)).box_it(),
        Op::Scan => src.scan(|a: Val, v: Val| plus(&a, &v)).box_it(),
        Op::ReduceInitial => src.reduce_initial(th, |a: Val, v: Val| plus(&a, &v)).box_it(),
        Op::Reduce => src.reduce(|a: Val, v: Val| plus(&a, &v)).box_it(),
        Op::Count => src.count().map(|n: usize| Val::c(n as i64)).box_it(),
        Op::Sum => src.sum().box_it(),
        Op::Min => src.min().box_it(),
        Op::Max => src.max().box_it(),
        Op::Average => src.average().box_it(),
        Op::Distinct => src.distinct().box_it(),
        Op::DistinctKey => src.distinct_key(|v: &Val| key2(v)).box_it(),
        Op::DistinctUntilChanged => src.distinct_until_changed().box_it(),
        Op::DistinctUntilKeyChanged => src.distinct_until_key_changed(|v: &Val| key2(v)).box_it(),
        Op::Pairwise => src.pairwise().map(|(a, b): (Val, Val)| Val::pair(a, b)).box_it(),
        Op::BufferWithCount => src.buffer_with_count(n.max(1)).map(|v: Vec<Val>| Val::L(v)).box_it(),
        Op::Contains => src.contains(th).map(|b: bool| Val::B(b)).box_it(),
        Op::All => src.all(move |v: Val| pred(pk, &th, &v)).map(|b: bool| Val::B(b)).box_it(),
        Op::Collect => src.collect::<Vec<Val>>().map(|v: Vec<Val>| Val::L(v)).box_it(),
        Op::CollectInto => src.collect_into::<Vec<Val>>(vec![th]).map(|v: Vec<Val>| Val::L(v)).box_it(),
        Op::OnErrorMap => src.on_error_map(move |e: Val| plus(&e, &th)).box_it(),
        Op::Finalize => src
          .$finalize(move || {
            bump(ctr);
          })
          .box_it(),
        Op::BoxIt => {
          let b: $obs = src.box_it();
          b
        }
        Op::Relay => $relay(src).box_it(),
        Op::Status => observable::defer(move || src.clone().complete_status().0).box_it(),
        Op::GroupFlat => observable::defer(move || src.clone().group_by::<_, Val, $subj>(|v: &Val| crate::model::key2(v)).$flat_map(|g| g)).box_it(),
      }
    }
  };
}

catalogue!(build, Obs, finalize, Relay, Subject<'static, Val, Val>, flat_map);
catalogue!(build_t, ObsT, finalize_threads, RelayT, SubjectThreads<Val, Val>, flat_map_threads);

// ---------------------------------------------------------------- two-input combinators

#[derive(Clone, Copy, Debug, PartialEq, Eq)]
pub enum Op2 {
  Merge,
  Zip,
  CombineLatest,
  WithLatestFrom,
  TakeUntil,
  SkipUntil,
  Sample,
  Buffer,
}

pub const OPS2: &[Op2] = &[Op2::Merge, Op2::Zip, Op2::CombineLatest, Op2::WithLatestFrom, Op2::TakeUntil, Op2::SkipUntil, Op2::Sample, Op2::Buffer];

pub fn build2(op: Op2, a: Obs, b: Obs) -> Obs {
  match op {
    Op2::Merge => a.merge(b).box_it(),
    Op2::Zip => a.zip(b).map(|(x, y): (Val, Val)| Val::pair(x, y)).box_it(),
    Op2::CombineLatest => a.combine_latest(b, |x: Val, y: Val| (x, y)).map(|(x, y): (Val, Val)| Val::pair(x, y)).box_it(),
    Op2::WithLatestFrom => a.with_latest_from(b).map(|(x, y): (Val, Val)| Val::pair(x, y)).box_it(),
    Op2::TakeUntil => a.take_until(b).box_it(),
    Op2::SkipUntil => a.skip_until(b).box_it(),
    Op2::Sample => a.sample(b).box_it(),
    Op2::Buffer => a.buffer(b.map(|_: Val| ())).map(|v: Vec<Val>| Val::L(v)).box_it(),
  }
}

pub fn build2_t(op: Op2, a: ObsT, b: ObsT) -> ObsT {
  match op {
    Op2::Merge => a.merge_threads(b).box_it(),
    Op2::Zip => a.zip_threads(b).map(|(x, y): (Val, Val)| Val::pair(x, y)).box_it(),
    Op2::CombineLatest => a.combine_latest_threads(b, |x: Val, y: Val| (x, y)).map(|(x, y): (Val, Val)| Val::pair(x, y)).box_it(),
    Op2::WithLatestFrom => a.with_latest_from_threads(b).map(|(x, y): (Val, Val)| Val::pair(x, y)).box_it(),
    Op2::TakeUntil => a.take_until_threads(b).box_it(),
    Op2::SkipUntil => a.skip_until_threads(b).box_it(),
    Op2::Sample => a.sample_threads(b).box_it(),
    // buffer(notifier) has a single (MutArc-based) form
    Op2::Buffer => a.buffer(b.map(|_: Val| ())).map(|v: Vec<Val>| Val::L(v)).box_it(),
  }
}
