//! Native replay of a Kani counterexample: `replay <harness> <vals-file>`
//! vals-file: one line per `kani::any()` value, comma-separated bytes (little endian).
#[cfg(kani)]
fn main() {}

#[cfg(not(kani))]
fn main() {
  let args: Vec<String> = std::env::args().collect();
  if args.len() < 3 {
    eprintln!("usage: replay <harness> <vals-file>");
    std::process::exit(2);
  }
  let txt = std::fs::read_to_string(&args[2]).expect("vals file");
  let vals: Vec<Vec<u8>> = txt
    .lines()
    .filter(|l| !l.trim().is_empty())
    .map(|l| l.split(',').filter(|x| !x.trim().is_empty()).map(|x| x.trim().parse::<u8>().unwrap()).collect())
    .collect();
  kh::nd::load(vals);
  std::panic::set_hook(Box::new(|_| {}));
  let name = args[1].clone();
  let r = std::panic::catch_unwind(move || kh::dispatch::run(&name));
  match r {
    Ok(true) => {
      println!("NOT-REPRODUCED (harness ran to its end)");
      std::process::exit(0)
    }
    Ok(false) => {
      println!("unknown harness");
      std::process::exit(2)
    }
    Err(p) => {
      let msg = if let Some(s) = p.downcast_ref::<&str>() {
        s.to_string()
      } else if let Some(s) = p.downcast_ref::<String>() {
        s.clone()
      } else {
        "panic".to_string()
      };
      println!("REPRODUCED: {}", msg);
      std::process::exit(1)
    }
  }
}
