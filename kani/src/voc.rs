//! Harness vocabulary (no rxRust code): `Grab` captures the real observer chain,
//! `Probe` logs into static arrays.
use rxrust::prelude::*;

pub const CAP: usize = 12;
pub const K_NEXT: u8 = 0;
pub const K_COMPLETE: u8 = 1;
pub const K_ERROR: u8 = 2;

pub static mut LOG_K: [u8; CAP] = [0; CAP];
pub static mut LOG_V: [u8; CAP] = [0; CAP];
pub static mut LOG_W: [u8; CAP] = [0; CAP]; // second component (pairs) / buffer length
pub static mut LEN: usize = 0;
pub static mut TERMINATED: bool = false;
pub static mut GRAMMAR_BROKEN: bool = false;
pub static mut SILENCED: bool = false;
pub static mut AFTER_SILENCE: bool = false;
pub static mut CTR: [u32; 4] = [0; 4];

pub fn reset() {
  unsafe {
    LEN = 0;
    TERMINATED = false;
    GRAMMAR_BROKEN = false;
    SILENCED = false;
    AFTER_SILENCE = false;
    CTR = [0; 4];
  }
}

fn push(k: u8, v: u8, w: u8) {
  unsafe {
    if TERMINATED {
      GRAMMAR_BROKEN = true;
    }
    if SILENCED {
      AFTER_SILENCE = true;
    }
    if k != K_NEXT {
      TERMINATED = true;
    }
    if LEN < CAP {
      LOG_K[LEN] = k;
      LOG_V[LEN] = v;
      LOG_W[LEN] = w;
      LEN += 1;
    }
  }
}

/// Zero-sized recording observer for `u8` items and errors.
#[derive(Clone, Copy)]
pub struct Probe;
impl Observer<u8, u8> for Probe {
  fn next(&mut self, v: u8) {
    push(K_NEXT, v, 0)
  }
  fn error(self, e: u8) {
    push(K_ERROR, e, 0)
  }
  fn complete(self) {
    push(K_COMPLETE, 0, 0)
  }
  fn is_finished(&self) -> bool {
    unsafe { TERMINATED }
  }
}

/// bool items (contains / all)
#[derive(Clone, Copy)]
pub struct ProbeB;
impl Observer<bool, u8> for ProbeB {
  fn next(&mut self, v: bool) {
    push(K_NEXT, v as u8, 0)
  }
  fn error(self, e: u8) {
    push(K_ERROR, e, 0)
  }
  fn complete(self) {
    push(K_COMPLETE, 0, 0)
  }
  fn is_finished(&self) -> bool {
    unsafe { TERMINATED }
  }
}

/// pair items (pairwise, zip, combine_latest, with_latest_from)
#[derive(Clone, Copy)]
pub struct ProbeP;
impl Observer<(u8, u8), u8> for ProbeP {
  fn next(&mut self, v: (u8, u8)) {
    push(K_NEXT, v.0, v.1)
  }
  fn error(self, e: u8) {
    push(K_ERROR, e, 0)
  }
  fn complete(self) {
    push(K_COMPLETE, 0, 0)
  }
  fn is_finished(&self) -> bool {
    unsafe { TERMINATED }
  }
}

/// usize items (count)
#[derive(Clone, Copy)]
pub struct ProbeU;
impl Observer<usize, u8> for ProbeU {
  fn next(&mut self, v: usize) {
    push(K_NEXT, v as u8, 0)
  }
  fn error(self, e: u8) {
    push(K_ERROR, e, 0)
  }
  fn complete(self) {
    push(K_COMPLETE, 0, 0)
  }
  fn is_finished(&self) -> bool {
    unsafe { TERMINATED }
  }
}

/// An observable that parks the observer it is given: the harness then drives the
/// real operator observer chain directly (no subject, no heap beyond what the
/// operator itself allocates).
pub struct Grab<'a, O>(pub &'a mut Option<O>);
impl<'a, Item, Err, O> Observable<Item, Err, O> for Grab<'a, O>
where
  O: Observer<Item, Err>,
{
  type Unsub = ();
  fn actual_subscribe(self, observer: O) {
    *self.0 = Some(observer);
  }
}
impl<'a, O> ObservableExt<u8, u8> for Grab<'a, O> {}

/// expected log built by the reference model
pub struct Want {
  pub k: [u8; CAP],
  pub v: [u8; CAP],
  pub w: [u8; CAP],
  pub len: usize,
  pub done: bool,
}
impl Want {
  pub fn new() -> Want {
    Want { k: [0; CAP], v: [0; CAP], w: [0; CAP], len: 0, done: false }
  }
  pub fn push(&mut self, k: u8, v: u8, w: u8) {
    if self.done {
      return;
    }
    if k != K_NEXT {
      self.done = true;
    }
    if self.len < CAP {
      self.k[self.len] = k;
      self.v[self.len] = v;
      self.w[self.len] = w;
      self.len += 1;
    }
  }
  pub fn next(&mut self, v: u8) {
    self.push(K_NEXT, v, 0)
  }
  pub fn matches_log(&self) -> bool {
    unsafe {
      if LEN != self.len {
        return false;
      }
      let mut i = 0;
      while i < CAP {
        if i < self.len && (LOG_K[i] != self.k[i] || LOG_V[i] != self.v[i] || LOG_W[i] != self.w[i]) {
          return false;
        }
        i += 1;
      }
      true
    }
  }
}

pub fn pred(pk: u8, th: u8, v: u8) -> bool {
  match pk {
    0 => v > th,
    1 => v == th,
    _ => v % 2 == 0,
  }
}

/// one scripted event: kind and value
#[derive(Clone, Copy)]
pub struct Evt {
  pub k: u8,
  pub v: u8,
}
pub fn draw_evt() -> Evt {
  let k = crate::nd::u8();
  crate::nd::assume(k <= 2);
  Evt { k, v: crate::nd::u8() }
}
