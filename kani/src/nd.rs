//! Nondeterminism shim: `kani::any()` under Kani, bytes of a replay file natively.
#[cfg(not(kani))]
use std::cell::RefCell;

#[cfg(not(kani))]
thread_local! {
  pub static VALS: RefCell<(Vec<Vec<u8>>, usize)> = RefCell::new((vec![], 0));
}

#[cfg(not(kani))]
pub fn load(vals: Vec<Vec<u8>>) {
  VALS.with(|v| *v.borrow_mut() = (vals, 0));
}

#[cfg(not(kani))]
fn next_bytes() -> Vec<u8> {
  VALS.with(|v| {
    let mut b = v.borrow_mut();
    let i = b.1;
    b.1 += 1;
    b.0.get(i).cloned().unwrap_or_else(|| vec![0; 8])
  })
}

#[cfg(kani)]
pub fn u8() -> u8 {
  kani::any()
}
#[cfg(not(kani))]
pub fn u8() -> u8 {
  next_bytes().first().copied().unwrap_or(0)
}

#[cfg(kani)]
pub fn bool() -> bool {
  kani::any()
}
#[cfg(not(kani))]
pub fn bool() -> bool {
  next_bytes().first().copied().unwrap_or(0) != 0
}

#[cfg(kani)]
pub fn usize() -> usize {
  kani::any()
}
#[cfg(not(kani))]
pub fn usize() -> usize {
  let b = next_bytes();
  let mut a = [0u8; 8];
  for (i, x) in b.iter().take(8).enumerate() {
    a[i] = *x;
  }
  usize::from_le_bytes(a)
}

#[cfg(kani)]
pub fn u64() -> u64 {
  kani::any()
}
#[cfg(not(kani))]
pub fn u64() -> u64 {
  usize() as u64
}

#[cfg(kani)]
pub fn assume(c: bool) {
  kani::assume(c)
}
#[cfg(not(kani))]
pub fn assume(c: bool) {
  if !c {
    println!("REPLAY-ASSUMPTION-FAILED");
    std::process::exit(3);
  }
}

/// reachability witness
#[cfg(kani)]
#[macro_export]
macro_rules! cover {
  ($c:expr, $m:expr) => {
    kani::cover!($c, $m)
  };
}
#[cfg(not(kani))]
#[macro_export]
macro_rules! cover {
  ($c:expr, $m:expr) => {
    let _ = $c;
  };
}
