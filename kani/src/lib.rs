//! Engine K: Kani/CBMC harnesses over the directly driven observer chain.
#![allow(static_mut_refs, dead_code, unused_imports, clippy::all)]
pub mod nd;
pub mod voc;
pub mod gen;
pub mod dispatch;
